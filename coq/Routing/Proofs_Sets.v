(* The set-valued aggregate requests (root directories, get_distinct): the result has no
   duplicates and its members are exactly the members of the acceptable answers of the asked
   providers. *)
From Coq Require Import ZArith List Bool Lia Arith.
From Common Require Import Res.
From Routing Require Import Model Scheme Obs Spec Proofs_Tables Proofs_Group Proofs_Merge Proofs_Library Proofs_Ops Proofs_Routing.
Import ListNotations.
Open Scope Z_scope.

Lemma cls_eqb_eq a b : cls_eqb a b = true <-> a = b.
Proof. destruct a, b; cbn; split; intros H; try reflexivity; try discriminate. Qed.

Lemma bool_eqb_eq (a b : bool) : Bool.eqb a b = true <-> a = b.
Proof. destruct a, b; cbn; split; intros H; try reflexivity; try discriminate. Qed.

Lemma entry_eqb_eq a b : entry_eqb a b = true <-> a = b.
Proof.
  destruct a as [|c i h|u], b as [|c' i' h'|u']; cbn; try (split; [discriminate|discriminate]).
  - tauto.
  - rewrite !andb_true_iff, cls_eqb_eq, Z.eqb_eq, bool_eqb_eq.
    split; [intros [[-> ->] ->]; reflexivity|intros [= -> -> ->]; auto].
  - rewrite uri_eqb_eq. split; [intros ->; reflexivity|intros [= ->]; reflexivity].
Qed.

Lemma mem_entry_In e l : mem_entry e l = true <-> In e l.
Proof.
  induction l as [|x r IH]; cbn; [split; [discriminate|tauto]|].
  rewrite orb_true_iff, IH, entry_eqb_eq. split; intros [H|H]; auto.
Qed.

Lemma set_add_In s e x : In x (set_add s e) <-> In x s \/ x = e.
Proof.
  unfold set_add. destruct (mem_entry e s) eqn:E.
  - apply mem_entry_In in E. split; [auto|intros [H| ->]; assumption].
  - rewrite in_app_iff. cbn. split; [intros [H|[H|[]]]; auto|intros [H|H]; auto].
Qed.

Lemma set_add_nodup s e : NoDup s -> NoDup (set_add s e).
Proof.
  intros H. unfold set_add. destruct (mem_entry e s) eqn:E; [assumption|].
  apply NoDup_app_iff'. repeat split; [assumption|constructor; [tauto|constructor]|].
  intros a Ha [Hb|[]]. subst a. apply mem_entry_In in Ha. congruence.
Qed.

Lemma set_union_In l : forall s x, In x (set_union s l) <-> In x s \/ In x l.
Proof.
  induction l as [|e r IH]; intros s x; cbn; [tauto|].
  unfold set_union in *. cbn. rewrite IH, set_add_In. split; [intros [[H|H]|H]; auto|intros [H|[H|H]]; auto].
Qed.

Lemma set_union_nodup l : forall s, NoDup s -> NoDup (set_union s l).
Proof.
  induction l as [|e r IH]; intros s H; cbn; [assumption|].
  unfold set_union in *. cbn. apply IH. now apply set_add_nodup.
Qed.


Lemma root_fold P : forall bs acc l,
  fold_res (root_step P) bs acc = Ok l ->
  (NoDup acc -> NoDup l) /\
  forall e, In e l <-> In e acc \/ exists b, In b bs /\ In e (root_contrib (ans P b MRoot AUnit)).
Proof.
  induction bs as [|b r IH]; intros acc l H; cbn in H.
  - injection H as <-. split; [auto|]. intros e. split; [auto|intros [H|(b & [] & _)]; assumption].
  - destruct (root_step P acc b) as [acc'|k|] eqn:E; try discriminate.
    destruct (IH acc' l H) as [N M]. unfold root_step in E.
    assert (Hacc : (NoDup acc -> NoDup acc') /\
                   forall e, In e acc' <-> In e acc \/ In e (root_contrib (ans P b MRoot AUnit))).
    { destruct (ans P b MRoot AUnit) as [k| | | | |c id| |]; cbn;
        try (injection E as <-; split; [auto|intros e; tauto]).
      - destruct (escapes no_reraise k); [discriminate|injection E as <-; split; [auto|intros e; tauto]].
      - destruct c; injection E as <-; cbn; try (split; [auto|intros e; tauto]).
        split; [apply set_add_nodup|]. intros e. rewrite set_add_In. split; [intros [H1|H1]; auto|].
        intros [H1|[H1|[]]]; auto. }
    destruct Hacc as [N' M']. split; [auto|]. intros e. rewrite M, M'. split.
    + intros [[H1|H1]|(b' & Hb' & H1)]; [auto|right; exists b; split; [now left|assumption]|].
      right. exists b'. split; [now right|assumption].
    + intros [H1|(b' & [<-|Hb'] & H1)]; [auto|auto|]. right. exists b'. auto.
Qed.

(* browse(None): no duplicates; members = the root Refs of the browse providers whose
   root_directory answer is a Ref (every other answer contributes nothing) *)
Theorem roots_decompose T P log l :
  browse T P BNone = (log, Ok (VList l)) ->
  NoDup l /\
  forall e, In e l <-> exists b, In b (tvalues (t_browse T)) /\ In e (root_contrib (ans P b MRoot AUnit)).
Proof.
  unfold browse. intros H. injection H as _ H.
  match type of H with
  | rmap_res VList ?F = _ => destruct F as [x|k|] eqn:E; cbn in H; try discriminate
  end. injection H as <-. apply root_fold in E. destruct E as [N M]. split; [apply N; constructor|].
  intros e. rewrite M. split.
  - intros [[]|(b & Hb & He)]. exists b. split; [exact (proj1 (In_dedup _ _) Hb)|assumption].
  - intros (b & Hb & He). right. exists b. split; [exact (proj2 (In_dedup _ _) Hb)|assumption].
Qed.


Lemma distinct_fold P f q : forall bs acc l,
  fold_res (distinct_step P f q) bs acc = Ok l ->
  (NoDup acc -> NoDup l) /\
  forall e, In e l <-> In e acc \/
                       exists b, In b bs /\
                                 In e (distinct_contrib (field_cls f) (ans P b MDistinct (ADistinct (field_compat f) q))).
Proof.
  induction bs as [|b r IH]; intros acc l H; cbn in H.
  - injection H as <-. split; [auto|]. intros e. split; [auto|intros [H|(b & [] & _)]; assumption].
  - destruct (distinct_step P f q acc b) as [acc'|k|] eqn:E; try discriminate.
    destruct (IH acc' l H) as [N M]. unfold distinct_step in E.
    assert (Hacc : (NoDup acc -> NoDup acc') /\
                   forall e, In e acc' <-> In e acc \/
                     In e (distinct_contrib (field_cls f) (ans P b MDistinct (ADistinct (field_compat f) q)))).
    { unfold distinct_contrib.
      destruct (ans P b MDistinct (ADistinct (field_compat f) q)) as [k| | |items|l0|c id|x|z];
        try (injection E as <-; split; [auto|intros e; cbn; tauto]).
      - destruct (escapes no_reraise k); [discriminate|injection E as <-; split; [auto|intros e; cbn; tauto]].
      - destruct (as_instances (field_cls f) (RMap items)); injection E as <-;
          [split; [apply set_union_nodup|intros e; apply set_union_In]|split; [auto|intros e; cbn; tauto]].
      - destruct (as_instances (field_cls f) (RList l0)); injection E as <-;
          [split; [apply set_union_nodup|intros e; apply set_union_In]|split; [auto|intros e; cbn; tauto]]. }
    destruct Hacc as [N' M']. split; [auto|]. intros e. rewrite M, M'. split.
    + intros [[H1|H1]|(b' & Hb' & H1)]; [auto|right; exists b; split; [now left|assumption]|].
      right. exists b'. split; [now right|assumption].
    + intros [H1|(b' & [<-|Hb'] & H1)]; [auto|auto|]. right. exists b'. auto.
Qed.

Theorem distinct_decompose T P f q log l :
  get_distinct T P f q = (log, Ok (VList l)) ->
  NoDup l /\
  forall e, In e l <->
            exists b, In b (tvalues (t_lib T)) /\
                      In e (distinct_contrib (field_cls f) (ans P b MDistinct (ADistinct (field_compat f) q))).
Proof.
  unfold get_distinct. destruct (negb (field_valid f)); [discriminate|].
  destruct (negb (dq_valid q)); [discriminate|]. intros H. injection H as _ H.
  match type of H with
  | rmap_res VList ?F = _ => destruct F as [x|k|] eqn:E; cbn in H; try discriminate
  end. injection H as <-. apply distinct_fold in E. destruct E as [N M]. split; [apply N; constructor|].
  intros e. rewrite M. split.
  - intros [[]|(b & Hb & He)]. exists b. split; [exact (proj1 (In_dedup _ _) Hb)|assumption].
  - intros (b & Hb & He). right. exists b. split; [exact (proj2 (In_dedup _ _) Hb)|assumption].
Qed.
