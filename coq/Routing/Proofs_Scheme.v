From Coq Require Import ZArith List Bool Lia.
From Common Require Import Str.
From Routing Require Import Scheme Model Obs Spec.
Import ListNotations.
Open Scope Z_scope.


Lemma ascii_lower_scheme_char c : scheme_char c = true -> lower_scheme_char (ascii_lower c) = true.
Proof.
  unfold scheme_char, lower_scheme_char, is_ascii_alpha, is_upper, is_lower, is_digit, ascii_lower.
  intros H. destruct ((65 <=? c) && (c <=? 90)) eqn:E.
  - apply andb_true_iff in E. destruct E as [E1 E2]. apply Z.leb_le in E1, E2.
    assert ((97 <=? c + 32) && (c + 32 <=? 122) = true) as -> by (apply andb_true_iff; split; apply Z.leb_le; lia).
    reflexivity.
  - cbn in H. exact H.
Qed.

Theorem scheme_of_lower s : forallb lower_scheme_char (scheme_of s) = true.
Proof.
  unfold scheme_of. destruct (before_colon (remove_unsafe (lstrip_c0 s))) as [[|c r]|]; try reflexivity.
  destruct (is_ascii_alpha c && forallb scheme_char (c :: r)) eqn:E; [|reflexivity].
  apply andb_true_iff in E. destruct E as [_ E]. rewrite forallb_forall in *.
  intros x Hx. apply in_map_iff in Hx. destruct Hx as (y & <- & Hy). apply ascii_lower_scheme_char. now apply E.
Qed.

Lemma scheme_char_not_special c : scheme_char c = true -> c0_or_space c = false /\ unsafe c = false /\ (c =? COLON) = false.
Proof.
  unfold scheme_char, is_ascii_alpha, is_upper, is_lower, is_digit, c0_or_space, unsafe, COLON. intros H.
  repeat rewrite orb_true_iff in H. repeat rewrite andb_true_iff in H. repeat rewrite Z.leb_le in H.
  repeat rewrite Z.eqb_eq in H.
  repeat split.
  - apply andb_false_iff. destruct (c <=? 32) eqn:E; [apply Z.leb_le in E; lia|now right].
  - repeat rewrite orb_false_iff. repeat split; apply Z.eqb_neq; lia.
  - apply Z.eqb_neq. lia.
Qed.

Lemma before_colon_app p rest :
  forallb scheme_char p = true -> before_colon (p ++ COLON :: rest) = Some p.
Proof.
  induction p as [|c r IH]; intros H; cbn; [reflexivity|].
  cbn in H. apply andb_true_iff in H. destruct H as [Hc Hr].
  destruct (scheme_char_not_special c Hc) as (_ & _ & ->). now rewrite (IH Hr).
Qed.

Lemma remove_unsafe_scheme p : forallb scheme_char p = true -> remove_unsafe p = p.
Proof.
  unfold remove_unsafe. induction p as [|c r IH]; intros H; [reflexivity|].
  cbn [forallb] in H. apply andb_true_iff in H. destruct H as [Hc Hr].
  cbn [filter]. destruct (scheme_char_not_special c Hc) as (_ & -> & _). cbn [negb]. now rewrite (IH Hr).
Qed.

(* a URI written  <letter><scheme chars>*:<anything>  is routed by that prefix, lower-cased,
   whatever follows the first colon *)
Theorem scheme_of_wellformed c p rest :
  is_ascii_alpha c = true -> forallb scheme_char (c :: p) = true ->
  scheme_of ((c :: p) ++ COLON :: rest) = map ascii_lower (c :: p).
Proof.
  intros Ha Hp. unfold scheme_of.
  assert (Hc : scheme_char c = true) by (cbn in Hp; apply andb_true_iff in Hp; tauto).
  destruct (scheme_char_not_special c Hc) as (H0 & _ & _).
  change (lstrip_c0 ((c :: p) ++ COLON :: rest))
    with (if c0_or_space c then lstrip_c0 (p ++ COLON :: rest) else (c :: p) ++ COLON :: rest).
  rewrite H0. unfold remove_unsafe. rewrite filter_app. fold (remove_unsafe (c :: p)).
  rewrite (remove_unsafe_scheme (c :: p) Hp).
  assert (E : filter (fun c0 => negb (unsafe c0)) (COLON :: rest) = COLON :: filter (fun c0 => negb (unsafe c0)) rest)
    by reflexivity.
  rewrite E, (before_colon_app (c :: p) _ Hp), Ha, Hp. reflexivity.
Qed.

(* no colon, or nothing / a non-letter before it: no scheme (check_uri rejects the URI) *)
Theorem scheme_of_no_colon s : ~ In COLON s -> scheme_of s = [].
Proof.
  intros H. unfold scheme_of.
  assert (E : before_colon (remove_unsafe (lstrip_c0 s)) = None).
  { assert (G : forall t, ~ In COLON t -> before_colon t = None).
    { induction t as [|c r IH]; intros Ht; cbn; [reflexivity|].
      destruct (c =? COLON) eqn:E; [apply Z.eqb_eq in E; exfalso; apply Ht; now left|].
      rewrite IH; [reflexivity|]. intro; apply Ht; now right. }
    apply G. intro Hin. apply H. unfold remove_unsafe in Hin. apply filter_In in Hin. destruct Hin as [Hin _].
    clear -Hin. induction s as [|c r IH]; cbn in Hin; [assumption|].
    destruct (c0_or_space c); [right; now apply IH|assumption]. }
  now rewrite E.
Qed.
