(* C09 property theorems.  Nothing but statements, `exact`, and Print Assumptions.
   Vocabulary (definitions in Model.v / Proofs_*.v):
     run P mx o            start-up (Backends construction) + one core request -> (call log, outcome)
     run_op T P mx o       one core request against the scheme tables T
     owns flag P i s       backend number i could be queried at start-up, offers provider `flag`
                           and registered scheme s
     own (t_lib T) b u     the library table routes URI u to backend b
     differ_only_at j P P' P and P' are the same population except for the answers of backend j
     acceptable c asked r  r is a dict whose keys are among `asked` and whose values are
                           sequences of instances of class c
     run_old               the same with lookup / get_images as they were before the fix: commits *)
From Coq Require Import ZArith List Bool.
From Common Require Import Res Str.
From Routing Require Import Model Scheme Obs Spec Obs Proofs_Tables Proofs_Group Proofs_Merge Proofs_Library Proofs_Ops
     Proofs_Routing Proofs_Witness Proofs_Frame Proofs_Sets Proofs_Scheme Proofs_Trace Proofs_Single Proofs_Examples Proofs_Modulo
     Validation Front ObsFront Proofs_Validation Proofs_Front Proofs_Answers Proofs_Events.
Import ListNotations.
Open Scope Z_scope.

(* ---- T1: result keys = requested URIs *)
Theorem C09_lookup_keys_exact : forall T P us log v,
  lookup T P us = (log, Ok v) ->
  exists m, v = VMap m /\ NoDup (keys m) /\ forall u, In u (keys m) <-> In u us.
Proof. exact lookup_keys_exact_lemma. Qed.
Print Assumptions C09_lookup_keys_exact.

Theorem C09_images_keys_exact : forall T P us log v,
  get_images T P us = (log, Ok v) ->
  exists m, v = VMap m /\ NoDup (keys m) /\ forall u, In u (keys m) <-> In u us.
Proof. exact images_keys_exact_lemma. Qed.
Print Assumptions C09_images_keys_exact.

(* ---- T2: each provider method is called only on the backend owning the scheme, with exactly
        its URIs (request order and multiplicity kept), every owner is called, once *)
Theorem C09_lookup_routing_exact : forall P T us log out,
  mk_backends P = Ok T -> lookup T P us = (log, out) ->
  (existsb bad_uri us = true /\ log = [] /\ out = Raise KValidation) \/
  (existsb bad_uri us = false /\
   (forall w m a, In (w, m, a) log ->
      exists b, w = Bk b /\ m = MLookupMany /\ a = AUris (filter (own (t_lib T) b) us) /\
                filter (own (t_lib T) b) us <> [] /\
                forall u, In u (filter (own (t_lib T) b) us) <-> In u us /\ owns b_lib P b (u_scheme u)) /\
   (forall u b, In u us -> owns b_lib P b (u_scheme u) ->
      In (Bk b, MLookupMany, AUris (filter (own (t_lib T) b) us)) log) /\
   NoDup (map (fun c : call => fst (fst c)) log)).
Proof. exact lookup_routing. Qed.
Print Assumptions C09_lookup_routing_exact.

Theorem C09_images_routing_exact : forall P T us log out,
  mk_backends P = Ok T -> get_images T P us = (log, out) ->
  (existsb bad_uri us = true /\ log = [] /\ out = Raise KValidation) \/
  (existsb bad_uri us = false /\ routed_exactly P T MGetImages us log).
Proof. exact images_routing. Qed.
Print Assumptions C09_images_routing_exact.

(* for every request kind: a provider method is only invoked on a backend offering that
   provider, and every URI handed to it has a scheme registered by that backend *)
Theorem C09_routing_sound : forall P T, mk_backends P = Ok T -> forall mx o log out,
  run_op T P mx o = (log, out) ->
  forall b m a, In (Bk b, m, a) log ->
    (exists s, owns (flag_of m) P b s) /\ forall u, In u (arg_uris a) -> owns (flag_of m) P b (u_scheme u).
Proof. exact routing_sound. Qed.
Print Assumptions C09_routing_sound.

(* "every library backend when no URI restricts the request": search without URIs (or with an
   empty list), get_distinct, refresh(None), the root directories, as_list, playlists.refresh(None)
   ask every backend offering the provider *)
Theorem C09_unrestricted_all_providers : forall P T mx o m flag log out,
  mk_backends P = Ok T -> unrestricted_op o = Some (m, flag) -> run_op T P mx o = (log, out) ->
  forall b, (exists s, owns flag P b s) -> exists a, In (Bk b, m, a) log.
Proof. exact unrestricted_all_providers. Qed.
Print Assumptions C09_unrestricted_all_providers.

(* ---- T3: unknown schemes map to empty results *)
Theorem C09_lookup_unknown_scheme_empty : forall P T us log m u,
  mk_backends P = Ok T -> lookup T P us = (log, Ok (VMap m)) ->
  In u us -> (forall b, ~ owns b_lib P b (u_scheme u)) -> rget m u = Some [].
Proof. exact lookup_unknown_empty. Qed.
Print Assumptions C09_lookup_unknown_scheme_empty.

Theorem C09_images_unknown_scheme_empty : forall P T us log m u,
  mk_backends P = Ok T -> get_images T P us = (log, Ok (VMap m)) ->
  In u us -> (forall b, ~ owns b_lib P b (u_scheme u)) -> rget m u = Some [].
Proof. exact images_unknown_empty. Qed.
Print Assumptions C09_images_unknown_scheme_empty.

Theorem C09_single_unknown_scheme_empty : forall P T, mk_backends P = Ok T -> forall mx o u flag empty,
  single_uri_op o = Some (u, flag, empty) -> (forall b, ~ owns flag P b (u_scheme u)) ->
  run_op T P mx o = ([], Ok empty) \/ run_op T P mx o = ([], Raise KValidation).
Proof. exact single_unknown_empty. Qed.
Print Assumptions C09_single_unknown_scheme_empty.

(* ---- T4: non-interference *)
Theorem C09_lookup_noninterference : forall j P P' mx us log m log' m',
  differ_only_at j P P' ->
  run P mx (OLookup us) = (log, Ok (VMap m)) -> run P' mx (OLookup us) = (log', Ok (VMap m')) ->
  log = log' /\ keys m = keys m' /\ forall u, ~ owns b_lib P j (u_scheme u) -> rget m u = rget m' u.
Proof. exact run_lookup_noninterference. Qed.
Print Assumptions C09_lookup_noninterference.

Theorem C09_images_noninterference : forall j P P' mx us log m log' m',
  differ_only_at j P P' ->
  run P mx (OImages us) = (log, Ok (VMap m)) -> run P' mx (OImages us) = (log', Ok (VMap m')) ->
  log = log' /\ keys m = keys m' /\ forall u, ~ owns b_lib P j (u_scheme u) -> rget m u = rget m' u.
Proof. exact run_images_noninterference. Qed.
Print Assumptions C09_images_noninterference.

(* frame, for every request kind: a backend that is not asked cannot influence anything *)
Theorem C09_frame : forall j P P' mx o,
  differ_only_at j P P' -> (forall m a, ~ In (Bk j, m, a) (fst (run P mx o))) -> run P mx o = run P' mx o.
Proof. exact run_frame. Qed.
Print Assumptions C09_frame.

Theorem C09_frame_nonvacuous :
  differ_only_at 1 [pA; pB] [pA; pB'] /\
  fst (run [pA; pB] None (OPlLookup (1, 1))) = [(Bk 0, PLookup, AUri (1, 1))] /\
  (forall m a, ~ In (Bk 1%nat, m, a) (fst (run [pA; pB] None (OPlLookup (1, 1))))).
Proof. exact frame_nonvacuous. Qed.
Print Assumptions C09_frame_nonvacuous.

(* browse(uri) / get_items / playlists.lookup / save / delete: the whole observation is
   independent of every backend that does not own the URI's scheme *)
Theorem C09_single_uri_noninterference : forall j P P' T mx o u flag empty,
  mk_backends P = Ok T -> differ_only_at j P P' ->
  single_uri_op o = Some (u, flag, empty) -> ~ owns flag P j (u_scheme u) ->
  run_op T P mx o = run_op T P' mx o.
Proof. exact single_uri_noninterference. Qed.
Print Assumptions C09_single_uri_noninterference.

(* aggregate requests are the concatenation of one contribution per asked provider, each a
   function of that provider's own answer only *)
Theorem C09_search_decomposes : forall T P q us e log l,
  search T P q us e = (log, Ok (VList l)) ->
  l = [] \/
  l = flat_map (fun g => search_contrib (ans P (fst g) MSearch (ASearch (sq_normalize q) (snd g) e)))
               (backends_to_uris (t_lib T) us).
Proof. exact search_decomposes. Qed.
Print Assumptions C09_search_decomposes.

Theorem C09_as_list_decomposes : forall T P log l,
  as_list T P = (log, Ok (VList l)) ->
  l = flat_map (fun b => as_list_contrib (ans P b PAsList AUnit)) (dedup (tvalues (t_playlists T))).
Proof. exact as_list_decomposes. Qed.
Print Assumptions C09_as_list_decomposes.

(* search / as_list: exactly which providers are asked, and under a change of backend j's
   answers the result only changes in j's own segment (which is empty if j is not asked) *)
Theorem C09_search_exact : forall T P q us e log l,
  search T P q us e = (log, Ok (VList l)) ->
  log = map (fun g => (Bk (fst g), MSearch, ASearch (sq_normalize q) (snd g) e)) (search_targets T q us) /\
  l = flat_map (fun g => search_contrib (ans P (fst g) MSearch (ASearch (sq_normalize q) (snd g) e)))
               (search_targets T q us).
Proof. exact search_exact. Qed.
Print Assumptions C09_search_exact.

Theorem C09_search_noninterference : forall j P P' T q us e log l log' l',
  differ_only_at j P P' ->
  search T P q us e = (log, Ok (VList l)) -> search T P' q us e = (log', Ok (VList l')) ->
  log = log' /\
  exists pre mine mine' post,
    l = pre ++ mine ++ post /\ l' = pre ++ mine' ++ post /\
    ((forall m a, ~ In (Bk j, m, a) log) -> mine = [] /\ mine' = []).
Proof. exact search_noninterference. Qed.
Print Assumptions C09_search_noninterference.

Theorem C09_as_list_noninterference : forall j P P' T log l log' l',
  differ_only_at j P P' ->
  as_list T P = (log, Ok (VList l)) -> as_list T P' = (log', Ok (VList l')) ->
  log = log' /\
  exists pre mine mine' post,
    l = pre ++ mine ++ post /\ l' = pre ++ mine' ++ post /\
    ((forall m a, ~ In (Bk j, m, a) log) -> mine = [] /\ mine' = []).
Proof. exact as_list_noninterference. Qed.
Print Assumptions C09_as_list_noninterference.

(* set-valued aggregates: no duplicates, members = members of the acceptable answers *)
Theorem C09_roots_decompose : forall T P log l,
  browse T P BNone = (log, Ok (VList l)) ->
  NoDup l /\
  forall e, In e l <-> exists b, In b (tvalues (t_browse T)) /\ In e (root_contrib (ans P b MRoot AUnit)).
Proof. exact roots_decompose. Qed.
Print Assumptions C09_roots_decompose.

Theorem C09_distinct_decompose : forall T P f q log l,
  get_distinct T P f q = (log, Ok (VList l)) ->
  NoDup l /\
  forall e, In e l <->
            exists b, In b (tvalues (t_lib T)) /\
                      In e (distinct_contrib (field_cls f) (ans P b MDistinct (ADistinct (field_compat f) q))).
Proof. exact distinct_decompose. Qed.
Print Assumptions C09_distinct_decompose.

(* ---- T5: containment of faults *)
(* full strength: refuted by library.search re-raising LookupError and playlists.save
   re-raising AssertionError (known findings) *)
Theorem C09_faults_never_raise_full_refuted_by_search : ~ faults_never_raise_full.
Proof. exact faults_never_raise_refuted_search. Qed.
Print Assumptions C09_faults_never_raise_full_refuted_by_search.

Theorem C09_faults_never_raise_full_refuted_by_save : ~ faults_never_raise_full.
Proof. exact faults_never_raise_refuted_save. Qed.
Print Assumptions C09_faults_never_raise_full_refuted_by_save.

(* strongest provable version: these two re-raises are the only leaks *)
Theorem C09_faults_never_raise_partial : forall T P mx o log k,
  ordinary_population P mx -> no_legacy_reraise P ->
  run_op T P mx o = (log, Raise k) -> k = KValidation /\ log = [].
Proof. exact faults_never_raise_partial. Qed.
Print Assumptions C09_faults_never_raise_partial.

Theorem C09_faults_partial_nonvacuous :
  ordinary_population [flaky KException; good1] None /\ no_legacy_reraise [flaky KException; good1] /\
  run [flaky KException; good1] None (OLookup [(1, 5); (2, 7)])
  = ([(Bk 0, MLookupMany, AUris [(1, 5)]); (Bk 1, MLookupMany, AUris [(2, 7)])],
     Ok (VMap [((1, 5), []); ((2, 7), [EObj CTrack 2001 true])])) /\
  snd (run [flaky KException; good1] None (OSearch SQGood None false)) = Ok (VList [EObj CSearch 2002 true]).
Proof. exact faults_partial_nonvacuous. Qed.
Print Assumptions C09_faults_partial_nonvacuous.

(* everything that can be raised by start-up + one request, for arbitrary populations *)
Theorem C09_raise_shape : forall P mx o log k,
  run P mx o = (log, Raise k) ->
  (k = KAssertion /\ log = [] /\ ~ NoDup (live_schemes P)) \/
  (k = KValidation /\ log = []) \/
  exists w m a, In (w, m, a) log /\ answer_of P mx w m a = RRaise k /\
                (k = KBase \/ ((exists b, w = Bk b) /\
                               ((m = MSearch /\ k = KLookup) \/ (m = PSave /\ k = KAssertion)))).
Proof. exact run_raise_shape. Qed.
Print Assumptions C09_raise_shape.

Theorem C09_terminates : forall P mx o log, run P mx o <> (log, Diverge).
Proof. exact run_terminates. Qed.
Print Assumptions C09_terminates.

(* a bad answer contributes nothing *)
Theorem C09_lookup_bad_answer_discarded : forall P T us log m u b,
  lookup T P us = (log, Ok (VMap m)) -> In u us -> tget (t_lib T) (u_scheme u) = Some b ->
  acceptable CTrack (filter (own (t_lib T) b) us) (ans P b MLookupMany (AUris (filter (own (t_lib T) b) us))) = false ->
  rget m u = Some [].
Proof. exact lookup_bad_answer_discarded. Qed.
Print Assumptions C09_lookup_bad_answer_discarded.

Theorem C09_images_bad_answer_discarded : forall P T us log m u b,
  get_images T P us = (log, Ok (VMap m)) -> In u us -> tget (t_lib T) (u_scheme u) = Some b ->
  acceptable CImage (filter (own (t_lib T) b) us) (ans P b MGetImages (AUris (filter (own (t_lib T) b) us))) = false ->
  rget m u = Some [].
Proof. exact images_bad_answer_discarded. Qed.
Print Assumptions C09_images_bad_answer_discarded.

(* each URI's answer comes only from its own backend *)
Theorem C09_lookup_provenance : forall T P us log m u es e,
  lookup T P us = (log, Ok (VMap m)) -> rget m u = Some es -> In e es ->
  exists b items v,
    tget (t_lib T) (u_scheme u) = Some b /\
    ans P b MLookupMany (AUris (filter (own (t_lib T) b) us)) = RMap items /\
    acceptable CTrack (filter (own (t_lib T) b) us) (RMap items) = true /\
    In (u, v) items /\ In e (mval_list v) /\ entry_is CTrack e = true /\ entry_has_uri e = true.
Proof. exact lookup_provenance_lemma. Qed.
Print Assumptions C09_lookup_provenance.

Theorem C09_images_provenance : forall T P us log m u es e,
  get_images T P us = (log, Ok (VMap m)) -> rget m u = Some es -> In e es ->
  exists b items v,
    tget (t_lib T) (u_scheme u) = Some b /\
    ans P b MGetImages (AUris (filter (own (t_lib T) b) us)) = RMap items /\
    acceptable CImage (filter (own (t_lib T) b) us) (RMap items) = true /\
    In (u, v) items /\ In e (mval_list v) /\ entry_is CImage e = true.
Proof. exact images_provenance_lemma. Qed.
Print Assumptions C09_images_provenance.

(* T5b for the requests naming one URI.  Full strength (an ill-typed answer leaves the empty
   value) is refuted by playlists.delete, which hands the answer through (known finding);
   it holds for browse / get_items / playlists.lookup / save *)
Theorem C09_single_bad_answer_discarded_full_refuted : ~ single_bad_answer_discarded_full.
Proof. exact single_bad_answer_discarded_refuted. Qed.
Print Assumptions C09_single_bad_answer_discarded_full_refuted.

Theorem C09_single_bad_answer_discarded_partial : forall T P mx o u flag empty b m a,
  is_delete o = false ->
  single_uri_op o = Some (u, flag, empty) -> single_call o = Some (m, a) ->
  bad_uri u = false \/ m = PLookup \/ m = PSave ->
  tget (table_for flag T o) (u_scheme u) = Some b ->
  ans P b m a <> RRaise KBase -> (m = PSave -> ans P b m a <> RRaise KAssertion) ->
  single_answer_ok o (ans P b m a) = false ->
  snd (run_op T P mx o) = Ok empty.
Proof. exact single_bad_answer_discarded_partial. Qed.
Print Assumptions C09_single_bad_answer_discarded_partial.

Theorem C09_delete_answer_handling : forall T P u b log out,
  bad_uri u = false -> tget (t_playlists T) (u_scheme u) = Some b -> delete T P u = (log, out) ->
  match ans P b PDelete (AUri u) with
  | RRaise k => if ordinary k then out = Ok (VBool false) else out = Raise k
  | RNone => out = Ok (VBool true)
  | RBool x => out = Ok (VBool x)
  | RInt z => out = Ok (VInt z)
  | _ => out = Ok VRaw
  end.
Proof. exact delete_answer_handling. Qed.
Print Assumptions C09_delete_answer_handling.

(* get_distinct: "every value was listed by some provider" is refuted by a dict answer whose
   keys are merged (known finding); it holds when no provider answers with a non-empty dict *)
Theorem C09_distinct_values_listed_full_refuted : ~ distinct_values_listed_full.
Proof. exact distinct_values_listed_refuted. Qed.
Print Assumptions C09_distinct_values_listed_full_refuted.

Theorem C09_distinct_values_listed_partial : forall T P f q log l e,
  no_dict_answer P ->
  get_distinct T P f q = (log, Ok (VList l)) -> In e l ->
  exists b es, ans P b MDistinct (ADistinct (field_compat f) q) = RList es /\ In e es.
Proof. exact distinct_values_listed_partial. Qed.
Print Assumptions C09_distinct_values_listed_partial.

(* create: providers are asked in order, the first Playlist answer wins, everything before it
   (ordinary raise, None, wrong type) is skipped *)
Theorem C09_create_first_acceptable : forall P n bs log out,
  create_loop P n bs = (log, out) ->
  (forall b, In b bs -> ans P b PCreate (AName n) <> RRaise KBase) ->
  match out with
  | Ok (VVal CPlaylist id) =>
      exists pre b post, bs = pre ++ b :: post /\ create_accepts (ans P b PCreate (AName n)) = Some id /\
                         (forall b', In b' pre -> create_accepts (ans P b' PCreate (AName n)) = None) /\
                         log = map (fun b => (Bk b, PCreate, AName n)) (pre ++ [b])
  | Ok VNone =>
      (forall b, In b bs -> create_accepts (ans P b PCreate (AName n)) = None) /\
      log = map (fun b => (Bk b, PCreate, AName n)) bs
  | _ => False
  end.
Proof. exact create_first_acceptable. Qed.
Print Assumptions C09_create_first_acceptable.

(* ---- T6: mixer *)
Theorem C09_mixer_bad_read_unknown : forall f,
  (not_base (f XGetVolume AUnit) -> volume_answer_ok (f XGetVolume AUnit) = false ->
   snd (get_volume (Some f)) = Ok VNone) /\
  (not_base (f XGetMute AUnit) -> mute_answer_ok (f XGetMute AUnit) = false ->
   snd (get_mute (Some f)) = Ok VNone).
Proof. exact mixer_bad_read_unknown. Qed.
Print Assumptions C09_mixer_bad_read_unknown.

Theorem C09_mixer_bad_write_false : forall f v m,
  (not_base (f XSetVolume (AInt v)) -> write_answer_ok (f XSetVolume (AInt v)) = false ->
   0 <= v <= 100 -> snd (set_volume (Some f) v) = Ok (VBool false)) /\
  (not_base (f XSetMute (ABool m)) -> write_answer_ok (f XSetMute (ABool m)) = false ->
   snd (set_mute (Some f) m) = Ok (VBool false)).
Proof. exact mixer_bad_write_false. Qed.
Print Assumptions C09_mixer_bad_write_false.

Theorem C09_mixer_results_typed : forall mx v m,
  (forall x, snd (get_volume mx) = Ok x -> x = VNone \/ (exists z, x = VInt z /\ 0 <= z <= 100) \/ exists b, x = VBool b) /\
  (forall x, snd (get_mute mx) = Ok x -> x = VNone \/ exists b, x = VBool b) /\
  (forall x, snd (set_volume mx v) = Ok x -> exists b, x = VBool b) /\
  (forall x, snd (set_mute mx m) = Ok x -> exists b, x = VBool b) /\
  (mx = None -> snd (get_volume mx) = Ok VNone /\ snd (get_mute mx) = Ok VNone /\
                snd (set_mute mx m) = Ok (VBool false) /\
                (0 <= v <= 100 -> snd (set_volume mx v) = Ok (VBool false))).
Proof. exact mixer_results_typed. Qed.
Print Assumptions C09_mixer_results_typed.

(* ---- T7: start-up *)
Theorem C09_duplicate_scheme_refused : forall P i j bi bj s,
  i <> j -> nth_error P i = Some bi -> nth_error P j = Some bj ->
  b_info_ok bi = true -> b_info_ok bj = true -> In s (b_schemes bi) -> In s (b_schemes bj) ->
  mk_backends P = Raise KAssertion.
Proof. exact duplicate_scheme_refused_lemma. Qed.
Print Assumptions C09_duplicate_scheme_refused.

Theorem C09_startup_ok_iff_no_duplicate : forall P,
  (exists T, mk_backends P = Ok T) <-> NoDup (live_schemes P).
Proof. exact mk_backends_ok_iff. Qed.
Print Assumptions C09_startup_ok_iff_no_duplicate.

Theorem C09_startup_only_assertion : forall P e, mk_backends P = Raise e -> e = KAssertion.
Proof. exact mk_backends_only_assertion. Qed.
Print Assumptions C09_startup_only_assertion.

Theorem C09_library_table_exact : forall P T, mk_backends P = Ok T ->
  forall s i, tget (t_lib T) s = Some i <-> owns b_lib P i s.
Proof. exact tget_owner_lib. Qed.
Print Assumptions C09_library_table_exact.

Theorem C09_browse_table_exact : forall P T, mk_backends P = Ok T ->
  forall s i, tget (t_browse T) s = Some i <-> owns b_browse P i s.
Proof. exact tget_owner_browse. Qed.
Print Assumptions C09_browse_table_exact.

Theorem C09_playlists_table_exact : forall P T, mk_backends P = Ok T ->
  forall s i, tget (t_playlists T) s = Some i <-> owns b_playlists P i s.
Proof. exact tget_owner_playlists. Qed.
Print Assumptions C09_playlists_table_exact.

Theorem C09_playback_table_exact : forall P T, mk_backends P = Ok T ->
  forall s i, tget (t_playback T) s = Some i <-> owns b_playback P i s.
Proof. exact tget_owner_playback. Qed.
Print Assumptions C09_playback_table_exact.

Theorem C09_owner_unique : forall P T flag flag' i j s,
  mk_backends P = Ok T -> owns flag P i s -> owns flag' P j s -> i = j.
Proof. exact owner_unique. Qed.
Print Assumptions C09_owner_unique.

(* backends written as mopidy.backend.Backend subclasses (inherited has_* capability methods):
   routing follows the providers that are set, e.g. a library-only backend (no playback) IS
   routed library requests *)
Theorem C09_provider_presence_is_routed : forall P T i ss pv answer s,
  mk_backends P = Ok T -> nth_error P i = Some (backend_of ss pv answer) -> In s ss ->
  (tget (t_lib T) s = Some i <-> pv_library pv <> None) /\
  (tget (t_browse T) s = Some i <-> exists r, pv_library pv = Some (Some r)) /\
  (tget (t_playlists T) s = Some i <-> pv_playlists pv = true) /\
  (tget (t_playback T) s = Some i <-> pv_playback pv = true).
Proof. exact provider_presence_is_routed. Qed.
Print Assumptions C09_provider_presence_is_routed.

Theorem C09_core_schemes_exact : forall P mx log l,
  run P mx OCoreSchemes = (log, Ok (VSchemes l)) ->
  log = [] /\ NoDup l /\
  forall s, In s l <-> exists i b, nth_error P i = Some b /\ b_info_ok b = true /\ In s (b_schemes b).
Proof. exact core_schemes_exact. Qed.
Print Assumptions C09_core_schemes_exact.

Theorem C09_startup_witness :
  mk_backends [pA; lib [2; 1] []] = Raise KAssertion /\ (exists T, mk_backends [pA; pB] = Ok T).
Proof. exact duplicate_scheme_witness. Qed.
Print Assumptions C09_startup_witness.

(* ---- the code before the fix: commits violated T1, T4 and T5 (kept as the record of the defects) *)
Theorem C09_old_lookup_keys_refuted :
  exists P us log m u, run_old P None (OLookup us) = (log, Ok (VMap m)) /\ In u (keys m) /\ ~ In u us.
Proof. exact lookup_old_foreign_key_refuted. Qed.
Print Assumptions C09_old_lookup_keys_refuted.

Theorem C09_old_lookup_noninterference_refuted :
  exists j P P' us log m log' m' u,
    differ_only_at j P P' /\ run_old P None (OLookup us) = (log, Ok (VMap m)) /\
    run_old P' None (OLookup us) = (log', Ok (VMap m')) /\
    ~ owns b_lib P j (u_scheme u) /\ rget m u <> rget m' u.
Proof. exact lookup_old_interference_refuted. Qed.
Print Assumptions C09_old_lookup_noninterference_refuted.

Theorem C09_old_images_noninterference_refuted :
  exists j P P' us log m log' m' u,
    differ_only_at j P P' /\ run_old P None (OImages us) = (log, Ok (VMap m)) /\
    run_old P' None (OImages us) = (log', Ok (VMap m')) /\
    ~ owns b_lib P j (u_scheme u) /\ rget m u <> rget m' u.
Proof. exact images_old_interference_refuted. Qed.
Print Assumptions C09_old_images_noninterference_refuted.

Theorem C09_old_lookup_bad_answer_kept_refuted :
  exists P T us log m u b,
    mk_backends P = Ok T /\ run_old P None (OLookup us) = (log, Ok (VMap m)) /\
    tget (t_lib T) (u_scheme u) = Some b /\
    acceptable CTrack (filter (own (t_lib T) b) us) (ans P b MLookupMany (AUris (filter (own (t_lib T) b) us))) = false /\
    rget m u <> Some [].
Proof. exact lookup_old_partial_refuted. Qed.
Print Assumptions C09_old_lookup_bad_answer_kept_refuted.

(* the same witnesses under the present code *)
Theorem C09_fixed_on_witnesses :
  snd (run [pA; pB'] None (OLookup [(1, 1); (2, 1)])) = Ok (VMap [((1, 1), [trk 1]); ((2, 1), [])]) /\
  snd (run [pA; pB'] None (OImages [(1, 1); (2, 1)])) = Ok (VMap [((1, 1), [img 1]); ((2, 1), [])]) /\
  snd (run [pA; pB] None (OLookup [(1, 1); (2, 1); (9, 3)]))
  = Ok (VMap [((1, 1), [trk 1]); ((2, 1), [trk 2001]); ((9, 3), [])]).
Proof. exact lookup_fixed_on_witness. Qed.
Print Assumptions C09_fixed_on_witnesses.

(* ---- the scheme of a URI text (transcription of urllib.parse.urlsplit, correspondence-checked) *)
Theorem C09_scheme_is_lowercase : forall s, forallb lower_scheme_char (scheme_of s) = true.
Proof. exact scheme_of_lower. Qed.
Print Assumptions C09_scheme_is_lowercase.

Theorem C09_scheme_of_wellformed_uri : forall c p rest,
  is_ascii_alpha c = true -> forallb scheme_char (c :: p) = true ->
  scheme_of ((c :: p) ++ COLON :: rest) = map ascii_lower (c :: p).
Proof. exact scheme_of_wellformed. Qed.
Print Assumptions C09_scheme_of_wellformed_uri.

Theorem C09_no_colon_no_scheme : forall s, ~ In COLON s -> scheme_of s = [].
Proof. exact scheme_of_no_colon. Qed.
Print Assumptions C09_no_colon_no_scheme.

(* ---- the monitor: one boolean function of an observation collecting T1, T2 (soundness), T3,
        typing of merged entries and the raise shape; true on every observation of the model.
        The harness evaluates this same function on the implementation's observations. *)
Theorem C09_trace_predicate_holds : forall P mx o, trace_ok_b P o (run P mx o) = true.
Proof. exact trace_ok_model. Qed.
Print Assumptions C09_trace_predicate_holds.

Theorem C09_log_methods : forall T P mx o log out,
  run_op T P mx o = (log, out) ->
  forall w m a, In (w, m, a) log -> In m (op_meths o) /\ (w = Mx <-> is_mixer_meth m = true).
Proof. exact log_methods. Qed.
Print Assumptions C09_log_methods.

(* ---- non-vacuity: concrete populations satisfying the hypotheses above *)
Theorem C09_ex_noninterference_nonvacuous :
  differ_only_at 1 [pA; pB] [pA; pB'] /\
  run [pA; pB] None (OLookup [(1, 1); (2, 1)])
  = ([(Bk 0, MLookupMany, AUris [(1, 1)]); (Bk 1, MLookupMany, AUris [(2, 1)])],
     Ok (VMap [((1, 1), [trk 1]); ((2, 1), [trk 2001])])) /\
  run [pA; pB'] None (OLookup [(1, 1); (2, 1)])
  = ([(Bk 0, MLookupMany, AUris [(1, 1)]); (Bk 1, MLookupMany, AUris [(2, 1)])],
     Ok (VMap [((1, 1), [trk 1]); ((2, 1), [])])) /\
  ~ owns b_lib [pA; pB] 1 (u_scheme (1, 1)) /\ owns b_lib [pA; pB] 1 (u_scheme (2, 1)).
Proof. exact noninterference_nonvacuous. Qed.
Print Assumptions C09_ex_noninterference_nonvacuous.

Theorem C09_ex_routing_nonvacuous :
  run [pA; pC; pD; pB] None (OLookup [(2, 1); (3, 1); (1, 1); (4, 1); (9, 9); (2, 1)])
  = ([(Bk 3, MLookupMany, AUris [(2, 1); (2, 1)]); (Bk 0, MLookupMany, AUris [(1, 1)]);
      (Bk 2, MLookupMany, AUris [(4, 1)])],
     Ok (VMap [((2, 1), [trk 2001]); ((3, 1), []); ((1, 1), [trk 1]); ((4, 1), []); ((9, 9), [])])).
Proof. exact routing_nonvacuous. Qed.
Print Assumptions C09_ex_routing_nonvacuous.

Theorem C09_ex_bad_answers_nonvacuous :
  snd (run [pW] None (OBrowse (BUri (5, 1)))) = Ok (VList []) /\
  snd (run [pW] None (OGetItems (5, 1))) = Ok VNone /\
  snd (run [pW] None (OPlLookup (5, 1))) = Ok VNone /\
  snd (run [pW] None (OSave (Some (5, 1)) 1)) = Ok VNone /\
  snd (run [pW] None (ODelete (5, 1))) = Ok VRaw /\
  snd (run [] (Some mxW) OGetVolume) = Ok VNone /\
  snd (run [] (Some mxW) (OSetVolume 5)) = Ok (VBool false) /\
  snd (run [] (Some mxW) OGetMute) = Ok VNone /\
  snd (run [] (Some mxW) (OSetMute true)) = Ok (VBool false) /\
  not_base (mxW XGetVolume AUnit) /\ volume_answer_ok (mxW XGetVolume AUnit) = false.
Proof. exact bad_answers_nonvacuous. Qed.
Print Assumptions C09_ex_bad_answers_nonvacuous.

Theorem C09_ex_aggregates_nonvacuous :
  run [lib [1] [(MSearch, RVal CSearch 1)]; lib [2] [(MSearch, RRaise KType)]; lib [3; 6] [(MSearch, RVal CSearch 3)]]
      None (OSearch SQStr None true)
  = ([(Bk 0, MSearch, ASearch SQGood None true); (Bk 1, MSearch, ASearch SQGood None true);
      (Bk 2, MSearch, ASearch SQGood None true)],
     Ok (VList [EObj CSearch 1 true; EObj CSearch 3 true])) /\
  snd (run [lib [1; 2] [(MRoot, RVal CRef 1)]; lib [3] [(MRoot, RVal CTrack 2)]; lib [4] [(MRoot, RVal CRef 1)]]
           None (OBrowse BNone)) = Ok (VList [EObj CRef 1 true]).
Proof. exact aggregates_nonvacuous. Qed.
Print Assumptions C09_ex_aggregates_nonvacuous.


(* ---- the clauses the code does not satisfy at full strength, stated in full with the recorded
        findings as the only explicit exceptions of the statement *)
Theorem C09_faults_never_raise_modulo_findings : forall T P mx o log k,
  ordinary_population P mx -> run_op T P mx o = (log, Raise k) ->
  (k = KValidation /\ log = []) \/
  (exists q us e b a, o = OSearch q us e /\ k = KLookup /\
                      In (Bk b, MSearch, a) log /\ ans P b MSearch a = RRaise KLookup) \/
  (exists u n b, o = OSave (Some u) n /\ k = KAssertion /\
                 log = [(Bk b, PSave, APlaylist u n)] /\ ans P b PSave (APlaylist u n) = RRaise KAssertion).
Proof. exact faults_never_raise_modulo_findings. Qed.
Print Assumptions C09_faults_never_raise_modulo_findings.

Theorem C09_faults_never_raise_other_requests : forall T P mx o log k,
  ordinary_population P mx ->
  (forall q us e, o <> OSearch q us e) -> (forall u n, o <> OSave u n) ->
  run_op T P mx o = (log, Raise k) -> k = KValidation /\ log = [].
Proof. exact faults_never_raise_other_requests. Qed.
Print Assumptions C09_faults_never_raise_other_requests.

Theorem C09_single_bad_answer_modulo_delete : forall T P mx o u flag empty b m a,
  single_uri_op o = Some (u, flag, empty) -> single_call o = Some (m, a) ->
  bad_uri u = false \/ m = PLookup \/ m = PSave ->
  tget (table_for flag T o) (u_scheme u) = Some b ->
  ans P b m a <> RRaise KBase -> (m = PSave -> ans P b m a <> RRaise KAssertion) ->
  single_answer_ok o (ans P b m a) = false ->
  snd (run_op T P mx o) = Ok empty \/
  (is_delete o = true /\ (forall k, ans P b m a <> RRaise k) /\
   snd (run_op T P mx o) = Ok (delete_passthrough (ans P b m a))).
Proof. exact single_bad_answer_modulo_delete. Qed.
Print Assumptions C09_single_bad_answer_modulo_delete.

Theorem C09_distinct_values_modulo_dict : forall T P f q log l e,
  get_distinct T P f q = (log, Ok (VList l)) -> In e l ->
  (exists b es, ans P b MDistinct (ADistinct (field_compat f) q) = RList es /\ In e es) \/
  (exists b items u, ans P b MDistinct (ADistinct (field_compat f) q) = RMap items /\
                     field_cls f = CStr /\ e = EUriStr u /\ In u (map fst items)).
Proof. exact distinct_values_modulo_dict. Qed.
Print Assumptions C09_distinct_values_modulo_dict.

(* ---- the validation layer (mopidy/internal/validation.py, model Validation.v): every check is
        sound and complete for a declarative type predicate, and total *)
Theorem C09_check_instance_iff : forall v t, check_instance v t = Ok tt <-> has_class t v.
Proof. exact check_instance_iff. Qed.
Print Assumptions C09_check_instance_iff.

Theorem C09_check_instances_iff : forall v t,
  check_instances v t = Ok tt <-> exists l, yields v l /\ Forall (has_class t) l.
Proof. exact check_instances_iff. Qed.
Print Assumptions C09_check_instances_iff.

Theorem C09_check_iterable_iff : forall v, check_iterable v = Ok tt <-> exists l, yields v l.
Proof. exact check_iterable_iff. Qed.
Print Assumptions C09_check_iterable_iff.

Theorem C09_check_boolean_iff : forall v, check_boolean v = Ok tt <-> exists b, v = PBool b.
Proof. exact check_boolean_iff. Qed.
Print Assumptions C09_check_boolean_iff.

Theorem C09_check_integer_iff : forall v lo hi,
  check_integer v lo hi = Ok tt <->
  exists z, integer_value v z /\ (forall m, lo = Some m -> m <= z) /\ (forall m, hi = Some m -> z <= m).
Proof. exact check_integer_iff. Qed.
Print Assumptions C09_check_integer_iff.

Theorem C09_check_choice_iff : forall v choices,
  (check_choice v choices = Ok tt <-> exists s, v = PStr s /\ In s choices) /\
  (check_choice v choices = Raise KType <-> hashable v = false) /\
  (check_choice v choices = Ok tt \/ check_choice v choices = Raise KType \/
   check_choice v choices = Raise KValidation).
Proof. exact check_choice_iff. Qed.
Print Assumptions C09_check_choice_iff.

Theorem C09_check_uris_iff : forall v, check_uris v = Ok tt <-> exists l, yields v l /\ Forall valid_uri l.
Proof. exact check_uris_iff. Qed.
Print Assumptions C09_check_uris_iff.

Theorem C09_check_query_iff : forall v fields,
  check_query v fields = Ok tt <-> exists items, v = PDict items /\ Forall (valid_query_item fields) items.
Proof. exact check_query_iff. Qed.
Print Assumptions C09_check_query_iff.

Theorem C09_validation_total : forall c,
  vrun c = Ok tt \/ vrun c = Raise KValidation \/ vrun c = Raise KType.
Proof. exact validation_total. Qed.
Print Assumptions C09_validation_total.

(* ---- the front door (Front.v): strings as numbers, the enumerated argument classes of the
        routing model as values, rejected arguments never reach a provider *)
Theorem C09_enc_injective : forall s, Forall code_point s -> forall t, Forall code_point t -> enc s = enc t -> s = t.
Proof. exact enc_inj. Qed.
Print Assumptions C09_enc_injective.

Theorem C09_bad_uri_is_check_uri : forall s, bad_uri (uri_of s) = true <-> check_uri (PStr s) <> Ok tt.
Proof. exact bad_uri_is_check_uri. Qed.
Print Assumptions C09_bad_uri_is_check_uri.

Theorem C09_query_token_validity : forall q,
  sq_valid (sq_normalize q) = true <-> check_query (normalize_query (squery_val q)) search_fields = Ok tt.
Proof. exact sq_valid_is_check_query. Qed.
Print Assumptions C09_query_token_validity.

Theorem C09_query_token_normalize : forall q, squery_val (sq_normalize q) = normalize_query (squery_val q).
Proof. exact squery_val_normalize. Qed.
Print Assumptions C09_query_token_normalize.

Theorem C09_distinct_query_validity : forall q,
  dq_valid q = true <->
  match q with Some q => check_query (squery_val q) search_fields | None => vok end = Ok tt.
Proof. exact dq_valid_is_check_query. Qed.
Print Assumptions C09_distinct_query_validity.

Theorem C09_field_token_validity : forall f,
  classify_field (PStr (field_val f)) = if field_valid f then Ok f else Raise KValidation.
Proof. exact classify_field_token. Qed.
Print Assumptions C09_field_token_validity.

Theorem C09_validate_raises : forall r k,
  validate r = Raise k ->
  k = KValidation \/ (k = KType /\ exists fv q, r = RDistinct fv q /\ hashable fv = false) \/
  (k = KException /\ exists v, r = RBrowse v).
Proof. exact validate_raises. Qed.
Print Assumptions C09_validate_raises.

Theorem C09_raw_rejected_no_calls : forall P T mx r k,
  mk_backends P = Ok T -> validate r = Raise k -> run_raw P mx r = ([], Raise k).
Proof. exact raw_rejected_no_calls. Qed.
Print Assumptions C09_raw_rejected_no_calls.

Theorem C09_validate_lookup_iff : forall v o,
  validate (RLookup v) = Ok o <->
  (exists l, yields v l /\ Forall valid_uri l) /\ o = OLookup (elems_uris v).
Proof. exact validate_lookup_iff. Qed.
Print Assumptions C09_validate_lookup_iff.

Theorem C09_raw_lookup_keys_exact : forall P mx v log val,
  run_raw P mx (RLookup v) = (log, Ok val) ->
  exists m l, val = VMap m /\ yields v l /\ Forall valid_uri l /\ NoDup (keys m) /\
              forall u, In u (keys m) <-> exists s, In (PStr s) l /\ u = uri_of s.
Proof. exact raw_lookup_keys_exact. Qed.
Print Assumptions C09_raw_lookup_keys_exact.

Theorem C09_raw_trace_predicate_holds : forall P mx r, rtrace_ok_b P r (run_raw P mx r) = true.
Proof. exact rtrace_ok_model. Qed.
Print Assumptions C09_raw_trace_predicate_holds.

(* ---- "validation.check_* on every backend return value": the routing model's acceptance tests
        are the validation layer evaluated on the answer rendered as a Python value *)
Theorem C09_sequence_answers_are_check_instances : forall key_text c r,
  (exists l, as_instances c r = Some l) <-> check_instances (resp_val key_text r) (cls_ty c) = Ok tt.
Proof. exact as_instances_is_check_instances. Qed.
Print Assumptions C09_sequence_answers_are_check_instances.

Theorem C09_object_answers_are_check_instance : forall key_text c r,
  match c with CStr | CInt => False | _ => True end ->
  (exists id, r = RVal c id) <-> check_instance (resp_val key_text r) (TModel c) = Ok tt.
Proof. exact single_object_is_check_instance. Qed.
Print Assumptions C09_object_answers_are_check_instance.

Theorem C09_dict_answers_are_validation : forall key_text c asked r,
  acceptable c asked r = true <->
  check_instance (resp_val key_text r) TMapping = Ok tt /\
  exists items, r = RMap items /\
    Forall (fun it => In (fst it) asked /\
                      check_instances (mval_val key_text (snd it)) (cls_ty c) = Ok tt) items.
Proof. exact acceptable_is_validation. Qed.
Print Assumptions C09_dict_answers_are_validation.

Theorem C09_mixer_answers_are_validation : forall key_text r,
  (write_answer_ok r = true <-> check_instance (resp_val key_text r) TBool = Ok tt) /\
  (mute_answer_ok r = true <-> r = RNone \/ check_instance (resp_val key_text r) TBool = Ok tt).
Proof. exact mixer_answers_are_validation. Qed.
Print Assumptions C09_mixer_answers_are_validation.

(* ---- core events: only validated answers are broadcast (events_spec is what the harness checks
        the events recorded at mopidy.listener.send against) *)
Theorem C09_playlist_changed_is_validated : forall T P mx o evs id,
  events_spec P o (run_op T P mx o) = Some evs -> In (EvPlaylistChanged id) evs ->
  snd (run_op T P mx o) = Ok (VVal CPlaylist id) /\
  exists b m a, In (Bk b, m, a) (fst (run_op T P mx o)) /\ (m = PCreate \/ m = PSave) /\
                ans P b m a = RVal CPlaylist id.
Proof. exact playlist_changed_is_validated. Qed.
Print Assumptions C09_playlist_changed_is_validated.

Theorem C09_save_discarded_answer_not_broadcast : forall T P mx u n b,
  tget (t_playlists T) (u_scheme u) = Some b ->
  (forall id, ans P b PSave (APlaylist u n) <> RVal CPlaylist id) ->
  events_spec P (OSave (Some u) n) (run_op T P mx (OSave (Some u) n)) = Some [].
Proof. exact save_discarded_answer_not_broadcast. Qed.
Print Assumptions C09_save_discarded_answer_not_broadcast.
