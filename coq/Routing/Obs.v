(* Comparison of model observations with the implementation's canonicalised observations
   (used only by the generated correspondence files) and the scripted answer tables. *)
From Coq Require Import ZArith List Bool.
From Common Require Import Res Str Cases.
From Routing Require Import Model Scheme.
Import ListNotations.
Open Scope Z_scope.

Definition kind_eqb (a b : kind) : bool :=
  match a, b with
  | KException, KException | KValidation, KValidation | KType, KType | KLookup, KLookup
  | KAssertion, KAssertion | KNotImpl, KNotImpl | KBase, KBase => true
  | _, _ => false
  end.

Definition meth_code (m : meth) : Z :=
  match m with
  | MLookupMany => 0 | MGetImages => 1 | MSearch => 2 | MBrowse => 3 | MRoot => 4 | MDistinct => 5
  | MRefresh => 6 | PAsList => 7 | PGetItems => 8 | PLookup => 9 | PCreate => 10 | PSave => 11
  | PDelete => 12 | PRefresh => 13 | XGetVolume => 14 | XSetVolume => 15 | XGetMute => 16
  | XSetMute => 17
  end.
Definition meth_eqb (a b : meth) : bool := meth_code a =? meth_code b.

Definition squery_code (q : squery) : Z :=
  match q with SQEmpty => 0 | SQGood => 1 | SQGood2 => 2 | SQStr => 3 | SQBad => 4 | SQBlank => 5 end.
Definition squery_eqb (a b : squery) : bool := squery_code a =? squery_code b.
Definition field_code (f : field) : Z :=
  match f with FStr => 0 | FInt => 1 | FTrack => 2 | FTrackName => 3 | FBogus => 4 end.
Definition field_eqb (a b : field) : bool := field_code a =? field_code b.

Fixpoint list_eqb {A} (eqb : A -> A -> bool) (a b : list A) : bool :=
  match a, b with
  | [], [] => true
  | x :: a', y :: b' => eqb x y && list_eqb eqb a' b'
  | _, _ => false
  end.
Definition opt_eqb {A} (eqb : A -> A -> bool) (a b : option A) : bool :=
  match a, b with
  | None, None => true
  | Some x, Some y => eqb x y
  | _, _ => false
  end.

Definition arg_eqb (a b : arg) : bool :=
  match a, b with
  | AUnit, AUnit => true
  | AUris x, AUris y => list_eqb uri_eqb x y
  | ASearch q us e, ASearch q' us' e' =>
      squery_eqb q q' && opt_eqb (list_eqb uri_eqb) us us' && Bool.eqb e e'
  | AUri u, AUri v => uri_eqb u v
  | AOptUri u, AOptUri v => opt_eqb uri_eqb u v
  | ADistinct f q, ADistinct f' q' => field_eqb f f' && opt_eqb squery_eqb q q'
  | AName n, AName n' => n =? n'
  | APlaylist u n, APlaylist u' n' => uri_eqb u u' && (n =? n')
  | AInt z, AInt z' => z =? z'
  | ABool x, ABool y => Bool.eqb x y
  | _, _ => false
  end.

Definition who_eqb (a b : who) : bool :=
  match a, b with
  | Bk i, Bk j => Nat.eqb i j
  | Mx, Mx => true
  | _, _ => false
  end.

Definition call_eqb (a b : call) : bool :=
  let '(w, m, x) := a in let '(w', m', x') := b in
  who_eqb w w' && meth_eqb m m' && arg_eqb x x'.

(* provider methods that only read: the log is compared as a set for these, as a multiset
   for the methods that act (refresh, create, save, delete, set_volume, set_mute) *)
Definition is_query (m : meth) : bool :=
  match m with
  | MRefresh | PCreate | PSave | PDelete | PRefresh | XSetVolume | XSetMute => false
  | _ => true
  end.

Fixpoint mem_call (c : call) (l : list call) : bool :=
  match l with [] => false | x :: r => call_eqb c x || mem_call c r end.

Fixpoint canon_log (l : list call) : list call :=
  match l with
  | [] => []
  | c :: r => if is_query (snd (fst c)) && mem_call c r then canon_log r else c :: canon_log r
  end.

Fixpoint count {A} (eqb : A -> A -> bool) (x : A) (l : list A) : nat :=
  match l with [] => O | y :: r => (if eqb x y then 1 else 0) + count eqb x r end.

Definition perm_eqb {A} (eqb : A -> A -> bool) (a b : list A) : bool :=
  Nat.eqb (length a) (length b) &&
  forallb (fun x => Nat.eqb (count eqb x a) (count eqb x b)) a.

Definition log_eqb (model impl : list call) : bool := perm_eqb call_eqb (canon_log model) (canon_log impl).

Definition rmap_eqb (a b : rmap) : bool :=
  Nat.eqb (length a) (length b) &&
  forallb (fun kv => opt_eqb (list_eqb entry_eqb) (rget b (fst kv)) (Some (snd kv))) a &&
  forallb (fun kv => opt_eqb (list_eqb entry_eqb) (rget a (fst kv)) (Some (snd kv))) b.

(* ordered = false: the list is a merge over several backends whose relative order is not an
   observable of the property (set / dict iteration order), compared as a multiset *)
Definition value_eqb (ordered : bool) (a b : value) : bool :=
  match a, b with
  | VNone, VNone => true
  | VBool x, VBool y => Bool.eqb x y
  | VInt x, VInt y => x =? y
  | VVal c i, VVal c' i' => cls_eqb c c' && (i =? i')
  | VList x, VList y => if ordered then list_eqb entry_eqb x y else perm_eqb entry_eqb x y
  | VMap x, VMap y => rmap_eqb x y
  | VSchemes x, VSchemes y => perm_eqb Z.eqb x y
  | VRaw, VRaw => true
  | _, _ => false
  end.

Definition outcome_eqb (ordered : bool) (a b : outcome) : bool :=
  match a, b with
  | Ok x, Ok y => value_eqb ordered x y
  | Raise j, Raise k => kind_eqb j k
  | _, _ => false
  end.

Definition obs_eqb (ordered : bool) (model impl : obs) : bool :=
  log_eqb (fst model) (fst impl) && outcome_eqb ordered (snd model) (snd impl).

(* scripted fakes: one fixed answer per method, None by default *)
Fixpoint script (l : list (meth * resp)) (m : meth) (a : arg) : resp :=
  match l with
  | [] => RNone
  | (m', r) :: t => if meth_eqb m m' then r else script t m a
  end.

(* c_texts: every URI string of the case with the scheme urllib.parse.urlparse gave for it
   (the oracle behind the scheme ids); checked against the transcription Scheme.scheme_of *)
(* a well-behaved backend: answers exactly the URIs it was asked about (a dict comprehension
   over the argument, so duplicates collapse), each with the same entries *)
Fixpoint uniq_uris (l : list uri) : list uri :=
  match l with
  | [] => []
  | u :: r => u :: filter (fun v => negb (uri_eqb v u)) (uniq_uris r)
  end.

Definition echo (c : cls) (ids : list Z) (a : arg) : resp :=
  match a with
  | AUris us => RMap (map (fun u => (u, MList (map (fun i => EObj c i true) ids))) (uniq_uris us))
  | _ => RNone
  end.

Fixpoint escript (e : list (meth * cls * list Z)) (l : list (meth * resp)) (m : meth) (a : arg) : resp :=
  match e with
  | [] => script l m a
  | (m', c, ids) :: t => if meth_eqb m m' then echo c ids a else escript t l m a
  end.

Record case := mkCase {
  c_backends : list backend;
  c_mixer : option mixer;
  c_op : op;
  c_ordered : bool;
  c_texts : list (str * str);
  c_impl : obs
}.

Definition texts_ok (c : case) : bool :=
  forallb (fun p => Str.str_eqb (scheme_of (fst p)) (snd p)) (c_texts c).

Definition case_ok (c : case) : bool :=
  texts_ok c && obs_eqb (c_ordered c) (run (c_backends c) (c_mixer c) (c_op c)) (c_impl c).
(* the same cases against the model of the code before the fix: commits *)
Definition case_ok_old (c : case) : bool :=
  texts_ok c && obs_eqb (c_ordered c) (run_old (c_backends c) (c_mixer c) (c_op c)) (c_impl c).

Definition scheme_case_ok (p : str * str) : bool := Str.str_eqb (scheme_of (fst p)) (snd p).
