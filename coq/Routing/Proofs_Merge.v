(* lookup / get_images: the result dict has exactly the requested URIs as keys and each URI's
   value is a function of the answer of the one backend the URI is routed to. *)
From Coq Require Import ZArith List Bool Lia Arith.
From Common Require Import Res.
From Routing Require Import Model Scheme Obs Spec Proofs_Tables Proofs_Group.
Import ListNotations.
Open Scope Z_scope.


Lemma rget_rset m k v u : rget (rset m k v) u = if uri_eqb u k then Some v else rget m u.
Proof.
  induction m as [|[k0 x] r IH]; cbn.
  - destruct (uri_eqb u k); reflexivity.
  - destruct (uri_eqb k k0) eqn:E; cbn.
    + apply uri_eqb_eq in E. subst k0. destruct (uri_eqb u k); reflexivity.
    + rewrite IH. destruct (uri_eqb u k) eqn:E1; [|reflexivity].
      apply uri_eqb_eq in E1. subst u. now rewrite E.
Qed.

Lemma rget_In_keys m u : rget m u <> None <-> In u (keys m).
Proof.
  induction m as [|[k x] r IH]; cbn; [tauto|].
  destruct (uri_eqb u k) eqn:E.
  - apply uri_eqb_eq in E. subst. split; [auto|discriminate].
  - apply uri_eqb_neq in E. rewrite IH. split; [auto|intros [H|H]; [congruence|assumption]].
Qed.

Lemma rget_Some_In m u v : rget m u = Some v -> In u (keys m).
Proof. intros H. apply rget_In_keys. congruence. Qed.

Lemma In_keys_rget m u : In u (keys m) -> exists v, rget m u = Some v.
Proof. intros H. apply rget_In_keys in H. destruct (rget m u); [eauto|congruence]. Qed.

Lemma keys_rset m k v : keys (rset m k v) = if mem_uri k (keys m) then keys m else keys m ++ [k].
Proof.
  induction m as [|[k0 x] r IH]; cbn; [reflexivity|].
  destruct (uri_eqb k k0) eqn:E; cbn; [reflexivity|]. unfold keys in IH. rewrite IH.
  destruct (mem_uri k (map fst r)); reflexivity.
Qed.

Lemma keys_rset_present m k v : In k (keys m) -> keys (rset m k v) = keys m.
Proof. intros H. rewrite keys_rset. apply mem_uri_In in H. now rewrite H. Qed.

Lemma keys_rset_nodup m k v : NoDup (keys m) -> NoDup (keys (rset m k v)).
Proof.
  intros H. rewrite keys_rset. destruct (mem_uri k (keys m)) eqn:E; [assumption|].
  apply NoDup_app_iff'. repeat split; [assumption|constructor; [tauto|constructor]|].
  intros a Ha [Hk|[]]. subst a. apply mem_uri_In in Ha. congruence.
Qed.

Lemma rinit_from_get us : forall m u,
  rget (fold_left (fun m u => rset m u []) us m) u = if mem_uri u us then Some [] else rget m u.
Proof.
  induction us as [|a r IH]; intros m u; cbn; [reflexivity|].
  rewrite IH, rget_rset. destruct (uri_eqb u a), (mem_uri u r); reflexivity.
Qed.

Lemma rinit_from_nodup us : forall m, NoDup (keys m) -> NoDup (keys (fold_left (fun m u => rset m u []) us m)).
Proof. induction us as [|a r IH]; intros m H; cbn; [assumption|]. apply IH. now apply keys_rset_nodup. Qed.

Lemma rinit_get us u : rget (rinit us) u = if mem_uri u us then Some [] else None.
Proof. unfold rinit. now rewrite rinit_from_get. Qed.

Lemma rinit_nodup us : NoDup (keys (rinit us)).
Proof. apply rinit_from_nodup. constructor. Qed.

Lemma rinit_keys us u : In u (keys (rinit us)) <-> In u us.
Proof.
  rewrite <- rget_In_keys, rinit_get. destruct (mem_uri u us) eqn:E.
  - apply mem_uri_In in E. split; [auto|discriminate].
  - split; [intros H; exfalso; now apply H|]. intros H. apply mem_uri_In in H. congruence.
Qed.

Lemma escapes_no_reraise k : escapes no_reraise k = true -> k = KBase.
Proof. destruct k; cbn; unfold no_reraise; intros H; congruence. Qed.

(* what one acceptable answer contributes; [] when the answer is not acceptable *)
Definition good_items (mth : meth) (c : cls) (P : list backend) (g : nat * list uri) : list (uri * mval) :=
  match ans P (fst g) mth (AUris (snd g)) with
  | RMap items => if forallb (item_ok c (snd g)) items then items else []
  | _ => []
  end.

Lemma good_items_keys mth c P g it : In it (good_items mth c P g) -> In (fst it) (snd g).
Proof.
  unfold good_items. destruct (ans P (fst g) mth (AUris (snd g))); try contradiction.
  destruct (forallb (item_ok c (snd g)) items) eqn:E; [|contradiction].
  intros H. rewrite forallb_forall in E. specialize (E it H). unfold item_ok in E.
  apply andb_true_iff in E. apply mem_uri_In. tauto.
Qed.

Lemma good_items_typed mth c P g it :
  In it (good_items mth c P g) -> exists l, snd it = MList l /\ forallb (entry_is c) l = true.
Proof.
  unfold good_items. destruct (ans P (fst g) mth (AUris (snd g))); try contradiction.
  destruct (forallb (item_ok c (snd g)) items) eqn:E; [|contradiction].
  intros H. rewrite forallb_forall in E. specialize (E it H). unfold item_ok in E.
  apply andb_true_iff in E. destruct E as [_ E]. destruct (snd it); [discriminate|eauto].
Qed.

Section Merge.
  Variable f : list entry -> mval -> list entry.
  Variable upd : updater.
  Hypothesis upd_get : forall m k v old u,
      rget m k = Some old -> rget (upd m k v) u = if uri_eqb u k then Some (f old v) else rget m u.
  Hypothesis upd_keys : forall m k v old, rget m k = Some old -> keys (upd m k v) = keys m.

  (* value of key u after merging items into a dict where u had value old *)
  Definition acc_items (u : uri) (items : list (uri * mval)) (old : list entry) : list entry :=
    fold_left (fun acc it => if uri_eqb u (fst it) then f acc (snd it) else acc) items old.

  Lemma acc_items_notin u items : forall old,
    (forall it, In it items -> fst it <> u) -> acc_items u items old = old.
  Proof.
    induction items as [|it r IH]; intros old H; cbn; [reflexivity|].
    assert (E : uri_eqb u (fst it) = false).
    { apply uri_eqb_neq. intro. apply (H it); [now left|congruence]. }
    rewrite E. apply IH. intros x Hx. apply H. now right.
  Qed.

  Lemma merge_apply_spec : forall items m,
    (forall it, In it items -> In (fst it) (keys m)) ->
    keys (merge_apply upd items m) = keys m /\
    forall u old, rget m u = Some old -> rget (merge_apply upd items m) u = Some (acc_items u items old).
  Proof.
    induction items as [|[k v] r IH]; intros m H.
    - split; [reflexivity|auto].
    - change (merge_apply upd ((k, v) :: r) m) with (merge_apply upd r (upd m k v)).
      destruct (In_keys_rget m k) as [oldk Hk]; [apply (H (k, v)); now left|].
      assert (Hkeys : keys (upd m k v) = keys m) by (eapply upd_keys; eassumption).
      destruct (IH (upd m k v)) as [IH1 IH2].
      { intros it Hit. rewrite Hkeys. apply H. now right. }
      split; [now rewrite IH1|].
      intros u old Hu.
      change (acc_items u ((k, v) :: r) old) with (acc_items u r (if uri_eqb u k then f old v else old)).
      apply IH2. rewrite (upd_get m k v oldk u Hk).
      destruct (uri_eqb u k) eqn:E; [|assumption].
      apply uri_eqb_eq in E. subst u. congruence.
  Qed.

  Variable mth : meth.
  Variable c : cls.
  Variable P : list backend.

  Lemma merge_step_ok m g m' :
    merge_step mth c upd P m g = Ok m' -> m' = merge_apply upd (good_items mth c P g) m.
  Proof.
    unfold merge_step, good_items. destruct (ans P (fst g) mth (AUris (snd g))) as [k| | |items|l|c0 id|b|z];
      try (intros [= <-]; reflexivity).
    - destruct (escapes no_reraise k); [discriminate|intros [= <-]; reflexivity].
    - destruct (forallb (item_ok c (snd g)) items); intros [= <-]; reflexivity.
  Qed.

  Lemma merge_step_fail m g :
    match merge_step mth c upd P m g with
    | Ok _ => True
    | Raise k => k = KBase /\ ans P (fst g) mth (AUris (snd g)) = RRaise KBase
    | Diverge => False
    end.
  Proof.
    unfold merge_step. destruct (ans P (fst g) mth (AUris (snd g))) as [k| | |items|l|c0 id|b|z]; try exact I.
    - destruct (escapes no_reraise k) eqn:E; [|exact I]. apply escapes_no_reraise in E. subst. auto.
    - destruct (forallb (item_ok c (snd g)) items); exact I.
  Qed.

  Lemma merge_step_total m g :
    ans P (fst g) mth (AUris (snd g)) <> RRaise KBase -> exists m', merge_step mth c upd P m g = Ok m'.
  Proof.
    intros H. pose proof (merge_step_fail m g) as F.
    destruct (merge_step mth c upd P m g) as [m'|k|]; [eauto|destruct F; contradiction|contradiction].
  Qed.

  Definition contrib_fold (u : uri) (gs : groups) (old : list entry) : list entry :=
    fold_left (fun acc g => acc_items u (good_items mth c P g) acc) gs old.

  Lemma fold_merge_spec : forall gs m m',
    (forall g, In g gs -> incl (snd g) (keys m)) ->
    fold_res (merge_step mth c upd P) gs m = Ok m' ->
    keys m' = keys m /\ forall u old, rget m u = Some old -> rget m' u = Some (contrib_fold u gs old).
  Proof.
    induction gs as [|g r IH]; intros m m' Hincl H; cbn in H.
    - injection H as <-. split; [reflexivity|auto].
    - destruct (merge_step mth c upd P m g) as [m1|k|] eqn:E; try discriminate.
      apply merge_step_ok in E.
      destruct (merge_apply_spec (good_items mth c P g) m) as [K1 K2].
      { intros it Hit. apply (Hincl g); [now left|]. eapply good_items_keys; eassumption. }
      rewrite <- E in K1, K2.
      destruct (IH m1 m') as [I1 I2]; [|assumption|].
      { intros g' Hg'. rewrite K1. apply Hincl. now right. }
      split; [congruence|]. intros u old Hu. cbn. apply I2. now apply K2.
  Qed.

  Lemma fold_merge_fail : forall gs m,
    match fold_res (merge_step mth c upd P) gs m with
    | Ok _ => True
    | Raise k => k = KBase /\ exists g, In g gs /\ ans P (fst g) mth (AUris (snd g)) = RRaise KBase
    | Diverge => False
    end.
  Proof.
    induction gs as [|g r IH]; intros m; cbn; [exact I|].
    pose proof (merge_step_fail m g) as F.
    destruct (merge_step mth c upd P m g) as [m1|k|]; [|destruct F; split; [assumption|exists g; auto]|exact F].
    specialize (IH m1). destruct (fold_res (merge_step mth c upd P) r m1) as [m2|k|]; [exact I| |exact IH].
    destruct IH as [-> [g' [Hg' Ha]]]. split; [reflexivity|exists g'; auto].
  Qed.

  Lemma contrib_fold_skip u : forall gs old,
    (forall g, In g gs -> ~ In u (snd g)) -> contrib_fold u gs old = old.
  Proof.
    induction gs as [|g r IH]; intros old H; cbn; [reflexivity|].
    rewrite acc_items_notin.
    - apply IH. intros g' Hg'. apply H. now right.
    - intros it Hit E. apply (H g); [now left|]. rewrite <- E. eapply good_items_keys; eassumption.
  Qed.

  Lemma contrib_fold_unique u b l : forall gs old,
    NoDup (map fst gs) -> In (b, l) gs ->
    (forall g, In g gs -> fst g <> b -> ~ In u (snd g)) ->
    contrib_fold u gs old = acc_items u (good_items mth c P (b, l)) old.
  Proof.
    induction gs as [|g r IH]; intros old Hnd Hin Hother; [contradiction|].
    cbn in Hnd. inversion Hnd as [|? ? Hx Hr]; subst. cbn. destruct Hin as [->|Hin].
    - apply contrib_fold_skip. intros g' Hg'. apply Hother; [now right|].
      intro E. apply Hx. cbn. rewrite <- E. apply in_map. assumption.
    - rewrite acc_items_notin.
      + apply IH; [assumption|assumption|]. intros g' Hg'. apply Hother. now right.
      + intros it Hit E. apply (Hother g); [now left| |].
        * intro E'. apply Hx. rewrite E'. apply (in_map fst) in Hin. exact Hin.
        * rewrite <- E. eapply good_items_keys; eassumption.
  Qed.

  (* per-URI value: the contribution of the owning backend's answer, [] without an owner *)
  Definition uri_value (t : table) (us : list uri) (u : uri) : list entry :=
    match tget t (u_scheme u) with
    | None => []
    | Some b => acc_items u (good_items mth c P (b, filter (own t b) us)) []
    end.

  Theorem merge_request_spec T us log out :
    merge_request mth c upd T P us = (log, out) ->
    existsb bad_uri us = false ->
    log = map (fun g => (Bk (fst g), mth, AUris (snd g))) (group (t_lib T) us) /\
    match out with
    | Ok v => exists m, v = VMap m /\ keys m = keys (rinit us) /\
                        NoDup (keys m) /\ (forall u, In u (keys m) <-> In u us) /\
                        forall u, In u us -> rget m u = Some (uri_value (t_lib T) us u)
    | Raise k => k = KBase /\ exists g, In g (group (t_lib T) us) /\
                                        ans P (fst g) mth (AUris (snd g)) = RRaise KBase
    | Diverge => False
    end.
  Proof.
    unfold merge_request. intros H Hbad. rewrite Hbad, routed_groups in H. injection H as <- <-.
    split; [reflexivity|]. set (gs := group (t_lib T) us).
    pose proof (fold_merge_fail gs (rinit us)) as F.
    destruct (fold_res (merge_step mth c upd P) gs (rinit us)) as [m|k|] eqn:E; cbn; [|exact F|exact F].
    exists m. split; [reflexivity|].
    apply fold_merge_spec in E.
    - destruct E as [K V]. split; [exact K|]. split; [rewrite K; apply rinit_nodup|].
      split; [intro u; rewrite K; apply rinit_keys|].
      intros u Hu. rewrite (V u []); [|rewrite rinit_get; apply mem_uri_In in Hu; now rewrite Hu].
      f_equal. unfold uri_value. destruct (tget (t_lib T) (u_scheme u)) as [b|] eqn:Et.
      + apply (contrib_fold_unique u b (filter (own (t_lib T) b) us)).
        * apply group_nodup.
        * exact (group_complete (t_lib T) us b u Hu Et).
        * intros [b' l'] Hg Hne Hin. cbn in *. apply (in_group_list _ _ _ _ u Hg) in Hin.
          destruct Hin as [_ Hin]. congruence.
      + apply (contrib_fold_skip u). intros [b' l'] Hg Hin. cbn in Hin.
        apply (in_group_list _ _ _ _ u Hg) in Hin. destruct Hin as [_ Hin]. congruence.
    - intros [b l] Hg x Hx. cbn in Hx. apply rinit_keys. apply (in_group_list _ _ _ _ x Hg) in Hx. tauto.
  Qed.

  Theorem merge_request_invalid T us :
    existsb bad_uri us = true -> merge_request mth c upd T P us = ([], Raise KValidation).
  Proof. unfold merge_request. now intros ->. Qed.
End Merge.

(* ------------------------------------------------------------------ the two instances *)

Definition lookup_f (old : list entry) (v : mval) : list entry := filter entry_has_uri (mval_list v).
Definition images_f (old : list entry) (v : mval) : list entry := old ++ mval_list v.

Lemma lookup_upd_get m k v old u :
  rget m k = Some old -> rget (lookup_upd m k v) u = if uri_eqb u k then Some (lookup_f old v) else rget m u.
Proof. intros _. unfold lookup_upd. apply rget_rset. Qed.

Lemma lookup_upd_keys m k v old : rget m k = Some old -> keys (lookup_upd m k v) = keys m.
Proof. intros H. unfold lookup_upd. apply keys_rset_present. eapply rget_Some_In; eassumption. Qed.

Lemma images_upd_get m k v old u :
  rget m k = Some old -> rget (images_upd m k v) u = if uri_eqb u k then Some (images_f old v) else rget m u.
Proof. intros H. unfold images_upd, radd. rewrite H. apply rget_rset. Qed.

Lemma images_upd_keys m k v old : rget m k = Some old -> keys (images_upd m k v) = keys m.
Proof. intros H. unfold images_upd, radd. rewrite H. apply keys_rset_present. eapply rget_Some_In; eassumption. Qed.

Definition lookup_value := uri_value lookup_f MLookupMany CTrack.
Definition images_value := uri_value images_f MGetImages CImage.

Definition lookup_spec := merge_request_spec lookup_f lookup_upd lookup_upd_get lookup_upd_keys MLookupMany CTrack.
Definition images_spec := merge_request_spec images_f images_upd images_upd_get images_upd_keys MGetImages CImage.
