(* Frame property (T4 for every request kind): a backend that is not asked cannot influence
   anything.  If two populations differ only in the answers of backend j and the request does
   not call j, the whole observation (call log and outcome) is the same. *)
From Coq Require Import ZArith List Bool Lia Arith.
From Common Require Import Res.
From Routing Require Import Model Scheme Obs Spec Proofs_Tables Proofs_Group Proofs_Merge Proofs_Library Proofs_Ops Proofs_Routing.
Import ListNotations.
Open Scope Z_scope.

Lemma fold_res_ext {A B} (f g : A -> B -> res kind A) l :
  (forall x, In x l -> forall a, f a x = g a x) -> forall a, fold_res f l a = fold_res g l a.
Proof.
  induction l as [|x r IH]; intros H a; cbn; [reflexivity|].
  rewrite <- (H x (or_introl eq_refl) a). destruct (f a x); try reflexivity.
  apply IH. intros y Hy. apply H. now right.
Qed.

Lemma live_schemes_shape bs bs' : Forall2 same_shape bs bs' -> live_schemes bs = live_schemes bs'.
Proof.
  induction 1 as [|b b' r r' Hs Hr IH]; [reflexivity|].
  unfold live_schemes in *. cbn [flat_map]. destruct Hs as (E1 & E2 & _). rewrite E1, E2, IH. reflexivity.
Qed.

Section Frame.
  Variable j : nat.
  Variables P P' : list backend.
  Hypothesis Hd : differ_only_at j P P'.

  Lemma live_schemes_same : live_schemes P = live_schemes P'.
  Proof. destruct Hd as [H _]. now apply live_schemes_shape. Qed.

  Lemma ans_same b m a : b <> j -> ans P b m a = ans P' b m a.
  Proof. intros H. now apply (ans_elsewhere j). Qed.

  Definition not_called (log : list call) : Prop := forall m a, ~ In (Bk j, m, a) log.

  Lemma not_called_map {X} (mk : X -> call) (who_of : X -> nat) l :
    (forall x, exists m a, mk x = (Bk (who_of x), m, a)) ->
    not_called (map mk l) -> forall x, In x l -> who_of x <> j.
  Proof.
    intros Hmk Hn x Hx E. destruct (Hmk x) as (m & a & Hm). apply (Hn m a).
    rewrite <- E, <- Hm. now apply in_map.
  Qed.

  Lemma create_loop_head n b r :
    exists lg, fst (create_loop P n (b :: r)) = (Bk b, PCreate, AName n) :: lg.
  Proof.
    cbn. destruct (create_loop P n r) as [lg o].
    destruct (ans P b PCreate (AName n)) as [k| | | | |c id| |]; cbn; eauto.
    - destruct (escapes no_reraise k); cbn; eauto.
    - destruct c; cbn; eauto.
  Qed.

  Lemma create_loop_tail n b r m a :
    In (Bk j, m, a) (fst (create_loop P n r)) ->
    (forall k, ans P b PCreate (AName n) = RRaise k -> escapes no_reraise k = false) ->
    (forall id, ans P b PCreate (AName n) <> RVal CPlaylist id) ->
    In (Bk j, m, a) (fst (create_loop P n (b :: r))).
  Proof.
    intros Hin Hk Hv. cbn. destruct (create_loop P n r) as [lg o]. cbn in Hin.
    destruct (ans P b PCreate (AName n)) as [k| | | | |c id| |] eqn:Ea; cbn; auto.
    - rewrite (Hk k eq_refl). cbn. auto.
    - destruct c; cbn; auto. exfalso. now apply (Hv id).
  Qed.

  Lemma create_loop_frame n : forall bs,
    not_called (fst (create_loop P n bs)) -> create_loop P n bs = create_loop P' n bs.
  Proof.
    induction bs as [|b r IH]; intros Hn; [reflexivity|].
    assert (Hb : b <> j).
    { intro E. subst b. destruct (create_loop_head n j r) as [lg Hl]. apply (Hn PCreate (AName n)).
      rewrite Hl. now left. }
    cbn. rewrite <- (ans_same b PCreate (AName n) Hb).
    destruct (ans P b PCreate (AName n)) as [k| | | | |c id| |] eqn:Ea.
    2-5,7-8: rewrite <- IH; [reflexivity|]; intros m a Hin; apply (Hn m a);
      apply create_loop_tail; [assumption|intros k0 Hk0; congruence|intros id0 Hid; congruence].
    - destruct (escapes no_reraise k) eqn:Ee; [reflexivity|].
      rewrite <- IH; [reflexivity|]. intros m a Hin. apply (Hn m a).
      apply create_loop_tail; [assumption|intros k0 Hk0; congruence|intros id0 Hid; congruence].
    - destruct c; try reflexivity;
        (rewrite <- IH; [reflexivity|]; intros m a Hin; apply (Hn m a);
         apply create_loop_tail; [assumption|intros k0 Hk0; congruence|intros id0 Hid; congruence]).
  Qed.

  Theorem frame T mx o :
    not_called (fst (run_op T P mx o)) -> run_op T P mx o = run_op T P' mx o.
  Proof.
    destruct o; cbn [run_op]; intros Hn; try reflexivity.
    - (* lookup *) unfold lookup, merge_request in *. destruct (existsb bad_uri us); [reflexivity|].
      cbn [fst] in Hn. f_equal. f_equal. apply fold_res_ext. intros g Hg m.
      assert (fst g <> j) by (eapply (not_called_map _ fst); [|exact Hn|exact Hg]; intros x; eauto).
      unfold merge_step. now rewrite ans_same.
    - (* get_images *) unfold get_images, merge_request in *. destruct (existsb bad_uri us); [reflexivity|].
      cbn [fst] in Hn. f_equal. f_equal. apply fold_res_ext. intros g Hg m.
      assert (fst g <> j) by (eapply (not_called_map _ fst); [|exact Hn|exact Hg]; intros x; eauto).
      unfold merge_step. now rewrite ans_same.
    - (* search *) unfold search in *.
      destruct (match us with Some l => existsb bad_uri l | None => false end); [reflexivity|].
      destruct (negb (sq_valid (sq_normalize q))); [reflexivity|].
      destruct (sq_normalize q); try reflexivity; cbn [fst] in Hn; f_equal; f_equal;
        apply fold_res_ext; intros g Hg acc;
        assert (fst g <> j) by (eapply (not_called_map _ fst); [|exact Hn|exact Hg]; intros x; eauto);
        unfold search_step; now rewrite ans_same.
    - (* browse *) unfold browse in *. destruct a as [| |u]; try reflexivity.
      + cbn [fst] in Hn. f_equal. f_equal. apply fold_res_ext. intros b Hb acc.
        assert (b <> j).
        { apply (not_called_map (fun b0 => (Bk b0, MRoot, AUnit)) (fun b0 => b0) (tvalues (t_browse T)));
            [intros x; eauto|exact Hn|exact (proj1 (In_dedup _ _) Hb)]. }
        unfold root_step. now rewrite ans_same.
      + destruct (bad_uri u); [reflexivity|].
        destruct (tget (t_browse T) (u_scheme u)) as [b|]; [|reflexivity].
        cbn [fst] in Hn. assert (b <> j) by (intro E; subst; apply (Hn MBrowse (AUri u)); now left).
        now rewrite ans_same.
    - (* get_distinct *) unfold get_distinct in *.
      destruct (negb (field_valid f)); [reflexivity|]. destruct (negb (dq_valid q)); [reflexivity|].
      cbn [fst] in Hn. f_equal. f_equal. apply fold_res_ext. intros b Hb acc.
      assert (b <> j).
      { apply (not_called_map (fun b0 => (Bk b0, MDistinct, ADistinct (field_compat f) q)) (fun b0 => b0)
                              (tvalues (t_lib T))); [intros x; eauto|exact Hn|exact (proj1 (In_dedup _ _) Hb)]. }
      unfold distinct_step. now rewrite ans_same.
    - (* refresh *) unfold refresh in *.
      destruct (match u with Some x => bad_uri x | None => false end); [reflexivity|].
      cbn [fst] in Hn. f_equal. f_equal. apply fold_res_ext. intros b Hb acc.
      assert (b <> j) by (eapply (not_called_map _ (fun b => b)); [|exact Hn|exact Hb]; intros x; eauto).
      unfold refresh_step. now rewrite ans_same.
    - (* as_list *) unfold as_list in *. cbn [fst] in Hn. f_equal. f_equal. apply fold_res_ext. intros b Hb acc.
      assert (b <> j) by (eapply (not_called_map _ (fun b => b)); [|exact Hn|exact Hb]; intros x; eauto).
      unfold as_list_step. now rewrite ans_same.
    - (* get_items *) unfold get_items in *. destruct (bad_uri u); [reflexivity|].
      destruct (tget (t_playlists T) (u_scheme u)) as [b|]; [|reflexivity].
      cbn [fst] in Hn. assert (b <> j) by (intro E; subst; apply (Hn PGetItems (AUri u)); now left).
      now rewrite ans_same.
    - (* playlists.lookup *) unfold pl_lookup in *.
      destruct (tget (t_playlists T) (u_scheme u)) as [b|]; [|reflexivity].
      cbn [fst] in Hn. assert (b <> j) by (intro E; subst; apply (Hn PLookup (AUri u)); now left).
      now rewrite ans_same.
    - (* create *) unfold create in *.
      destruct (match s with Some s0 => tget (t_playlists T) s0 | None => None end); now apply create_loop_frame.
    - (* save *) unfold save in *. destruct u as [u|]; [|reflexivity].
      destruct (tget (t_playlists T) (u_scheme u)) as [b|]; [|reflexivity].
      cbn [fst] in Hn. assert (b <> j) by (intro E; subst; apply (Hn PSave (APlaylist u n)); now left).
      now rewrite ans_same.
    - (* delete *) unfold delete in *. destruct (bad_uri u); [reflexivity|].
      destruct (tget (t_playlists T) (u_scheme u)) as [b|]; [|reflexivity].
      cbn [fst] in Hn. assert (b <> j) by (intro E; subst; apply (Hn PDelete (AUri u)); now left).
      now rewrite ans_same.
    - (* playlists.refresh *) unfold pl_refresh in *.
      cbn [fst] in Hn. f_equal. f_equal. apply fold_res_ext. intros b Hb acc.
      assert (b <> j) by (eapply (not_called_map _ (fun b => b)); [|exact Hn|exact Hb]; intros x; eauto).
      unfold refresh_step. now rewrite ans_same.
    - (* Core.get_uri_schemes *) now rewrite live_schemes_same.
  Qed.
End Frame.

(* run level: start-up included *)
Theorem run_frame j P P' mx o :
  differ_only_at j P P' -> (forall m a, ~ In (Bk j, m, a) (fst (run P mx o))) -> run P mx o = run P' mx o.
Proof.
  intros Hd Hn. unfold run in *. rewrite <- (differ_same_tables j P P' Hd).
  destruct (mk_backends P) as [T|e|]; try reflexivity. now apply (frame j P P' Hd).
Qed.

(* a request naming one URI is unaffected by every backend that does not own the URI's scheme *)
Theorem single_uri_noninterference j P P' T mx o u flag empty :
  mk_backends P = Ok T -> differ_only_at j P P' ->
  single_uri_op o = Some (u, flag, empty) -> ~ owns flag P j (u_scheme u) ->
  run_op T P mx o = run_op T P' mx o.
Proof.
  intros HT Hd Ho Hno. apply (frame j P P' Hd). intros m a Hin.
  destruct (run_op T P mx o) as [log out] eqn:E. cbn in Hin.
  destruct (routing_sound P T HT mx o log out E j m a Hin) as [_ Hall].
  destruct o; try discriminate; cbn in Ho.
  - destruct a0; try discriminate. injection Ho as <- <- <-. cbn in E. unfold browse in E.
    destruct (bad_uri u0); [injection E as <- <-; contradiction|].
    destruct (tget (t_browse T) (u_scheme u0)); [|injection E as <- <-; contradiction].
    injection E as <- <-. destruct Hin as [[= <- <- <-]|[]]. apply Hno. apply Hall. now left.
  - injection Ho as <- <- <-. cbn in E. unfold get_items in E.
    destruct (bad_uri u0); [injection E as <- <-; contradiction|].
    destruct (tget (t_playlists T) (u_scheme u0)); [|injection E as <- <-; contradiction].
    injection E as <- <-. destruct Hin as [[= <- <- <-]|[]]. apply Hno. apply Hall. now left.
  - injection Ho as <- <- <-. cbn in E. unfold pl_lookup in E.
    destruct (tget (t_playlists T) (u_scheme u0)); [|injection E as <- <-; contradiction].
    injection E as <- <-. destruct Hin as [[= <- <- <-]|[]]. apply Hno. apply Hall. now left.
  - destruct u0; try discriminate. injection Ho as <- <- <-. cbn in E. unfold save in E.
    destruct (tget (t_playlists T) (u_scheme u0)); [|injection E as <- <-; contradiction].
    injection E as <- <-. destruct Hin as [[= <- <- <-]|[]]. apply Hno. apply Hall. now left.
  - injection Ho as <- <- <-. cbn in E. unfold delete in E.
    destruct (bad_uri u0); [injection E as <- <-; contradiction|].
    destruct (tget (t_playlists T) (u_scheme u0)); [|injection E as <- <-; contradiction].
    injection E as <- <-. destruct Hin as [[= <- <- <-]|[]]. apply Hno. apply Hall. now left.
Qed.

(* non-vacuity: the hypotheses hold for a request that does reach a backend *)
From Routing Require Import Obs Proofs_Witness.
Example frame_nonvacuous :
  differ_only_at 1 [pA; pB] [pA; pB'] /\
  fst (run [pA; pB] None (OPlLookup (1, 1))) = [(Bk 0, PLookup, AUri (1, 1))] /\
  (forall m a, ~ In (Bk 1%nat, m, a) (fst (run [pA; pB] None (OPlLookup (1, 1))))).
Proof.
  split; [exact pAB_differ|]. split; [vm_compute; reflexivity|].
  intros m a H. vm_compute in H. destruct H as [[=]|[]].
Qed.

(* ------------------------------------------------------------------ aggregates: only j's own segment changes *)

Lemma NoDup_dedup l : NoDup (dedup l).
Proof.
  induction l as [|x r IH]; cbn; [constructor|]. constructor.
  - intro H. apply filter_In in H. destruct H as [_ H]. rewrite Nat.eqb_refl in H. discriminate.
  - now apply NoDup_filter.
Qed.

Lemma flat_map_ext_in {A B} (c c' : A -> list B) l :
  (forall g, In g l -> c g = c' g) -> flat_map c l = flat_map c' l.
Proof.
  induction l as [|g r IH]; intros H; cbn; [reflexivity|].
  rewrite (H g (or_introl eq_refl)), IH; [reflexivity|]. intros g' Hg'. apply H. now right.
Qed.

Lemma flat_map_segment {A B} (c c' : A -> list B) (key : A -> nat) j : forall gs,
  NoDup (map key gs) -> (forall g, In g gs -> key g <> j -> c g = c' g) ->
  exists pre mine mine' post,
    flat_map c gs = pre ++ mine ++ post /\ flat_map c' gs = pre ++ mine' ++ post /\
    ((forall g, In g gs -> key g <> j) -> mine = [] /\ mine' = []).
Proof.
  induction gs as [|g r IH]; intros Hnd Hsame.
  - exists [], [], [], []. cbn. auto.
  - cbn in Hnd. inversion Hnd as [|? ? Hx Hr]; subst.
    destruct (Nat.eq_dec (key g) j) as [E|E].
    + (* g is j's entry: nothing else in r is *)
      assert (Hrest : flat_map c r = flat_map c' r).
      { apply flat_map_ext_in. intros g' Hg'. apply Hsame; [now right|].
        intro E'. apply Hx. rewrite E, <- E'. now apply in_map. }
      exists [], (c g), (c' g), (flat_map c r). cbn. rewrite Hrest.
      split; [reflexivity|split; [reflexivity|]].
      intros H. exfalso. apply (H g); [now left|assumption].
    + destruct (IH Hr) as (pre & mine & mine' & post & H1 & H2 & H3).
      { intros g0 Hg0. apply Hsame. now right. }
      exists (c g ++ pre), mine, mine', post. cbn.
      rewrite H1, H2, <- (Hsame g (or_introl eq_refl) E), <- !app_assoc.
      split; [reflexivity|split; [reflexivity|]].
      intros H. apply H3. intros g0 Hg0. apply H. now right.
Qed.

Lemma backends_to_uris_nodup t us : NoDup (map fst (backends_to_uris t us)).
Proof.
  unfold backends_to_uris.
  assert (D : NoDup (map fst (map (fun b : nat => (b, @None (list uri))) (dedup (tvalues t))))).
  { rewrite map_map. cbn. rewrite map_id. apply NoDup_dedup. }
  destruct us as [[|u r]|]; try exact D.
  rewrite map_map. exact (group_nodup t (u :: r)).
Qed.

Lemma search_targets_nodup T q us : NoDup (map fst (search_targets T q us)).
Proof.
  unfold search_targets. destruct (sq_normalize q); try apply backends_to_uris_nodup. constructor.
Qed.

Theorem search_exact T P q us e log l :
  search T P q us e = (log, Ok (VList l)) ->
  log = map (fun g => (Bk (fst g), MSearch, ASearch (sq_normalize q) (snd g) e)) (search_targets T q us) /\
  l = flat_map (fun g => search_contrib (ans P (fst g) MSearch (ASearch (sq_normalize q) (snd g) e)))
               (search_targets T q us).
Proof.
  unfold search, search_targets.
  destruct (match us with Some l0 => existsb bad_uri l0 | None => false end); [discriminate|].
  destruct (negb (sq_valid (sq_normalize q))); [discriminate|].
  intros H. destruct (sq_normalize q) eqn:Eq.
  1: { injection H as <- <-. split; reflexivity. }
  all: injection H as <- H; split; [reflexivity|];
    match type of H with
    | rmap_res VList ?F = _ => destruct F as [x|k|] eqn:E; cbn in H; try discriminate
    end; injection H as <-; now apply search_fold in E.
Qed.

(* two populations differing only in backend j: the same providers are asked, and the results
   are equal except for the one segment contributed by j (empty when j is not asked) *)
Theorem search_noninterference j P P' T q us e log l log' l' :
  differ_only_at j P P' ->
  search T P q us e = (log, Ok (VList l)) -> search T P' q us e = (log', Ok (VList l')) ->
  log = log' /\
  exists pre mine mine' post,
    l = pre ++ mine ++ post /\ l' = pre ++ mine' ++ post /\
    ((forall m a, ~ In (Bk j, m, a) log) -> mine = [] /\ mine' = []).
Proof.
  intros Hd H H'. apply search_exact in H, H'. destruct H as [-> ->], H' as [-> ->].
  split; [reflexivity|].
  destruct (flat_map_segment
              (fun g => search_contrib (ans P (fst g) MSearch (ASearch (sq_normalize q) (snd g) e)))
              (fun g => search_contrib (ans P' (fst g) MSearch (ASearch (sq_normalize q) (snd g) e)))
              fst j (search_targets T q us) (search_targets_nodup T q us))
    as (pre & mine & mine' & post & H1 & H2 & H3).
  { intros g _ Hne. now rewrite (ans_elsewhere j P P' (fst g) _ _ Hd Hne). }
  exists pre, mine, mine', post. split; [assumption|split; [assumption|]].
  intros Hn. apply H3. intros g Hg E. apply (Hn MSearch (ASearch (sq_normalize q) (snd g) e)).
  rewrite <- E. apply in_map_iff. exists g. auto.
Qed.

Theorem as_list_noninterference j P P' T log l log' l' :
  differ_only_at j P P' ->
  as_list T P = (log, Ok (VList l)) -> as_list T P' = (log', Ok (VList l')) ->
  log = log' /\
  exists pre mine mine' post,
    l = pre ++ mine ++ post /\ l' = pre ++ mine' ++ post /\
    ((forall m a, ~ In (Bk j, m, a) log) -> mine = [] /\ mine' = []).
Proof.
  intros Hd H H'.
  assert (Hlog : log = log' /\ log = map (fun b => (Bk b, PAsList, AUnit)) (dedup (tvalues (t_playlists T)))).
  { unfold as_list in H, H'. injection H as <- _. injection H' as <- _. auto. }
  destruct Hlog as [<- Hlog]. split; [reflexivity|].
  apply as_list_decomposes in H, H'. subst l l'.
  destruct (flat_map_segment (fun b => as_list_contrib (ans P b PAsList AUnit))
                             (fun b => as_list_contrib (ans P' b PAsList AUnit))
                             (fun b => b) j (dedup (tvalues (t_playlists T))))
    as (pre & mine & mine' & post & H1 & H2 & H3).
  { rewrite map_id. apply NoDup_dedup. }
  { intros b _ Hne. now rewrite (ans_elsewhere j P P' b _ _ Hd Hne). }
  exists pre, mine, mine', post. split; [assumption|split; [assumption|]].
  intros Hn. apply H3. intros b Hb E. subst b. apply (Hn PAsList AUnit). rewrite Hlog.
  apply in_map_iff. exists j. auto.
Qed.
