(* _get_backends_to_uris: the request URIs are partitioned by owning backend. *)
From Coq Require Import ZArith List Bool Lia Arith.
From Common Require Import Res.
From Routing Require Import Model Scheme Obs Spec Proofs_Tables.
Import ListNotations.
Open Scope Z_scope.


Fixpoint gget (b : nat) (g : groups) : option (list uri) :=
  match g with
  | [] => None
  | (b', l) :: r => if Nat.eqb b b' then Some l else gget b r
  end.

Lemma group_add_get b u g b' :
  gget b' (group_add b u g) =
  if Nat.eqb b' b then Some (match gget b g with Some l => l ++ [u] | None => [u] end) else gget b' g.
Proof.
  induction g as [|[b0 l] r IH]; cbn.
  - destruct (Nat.eqb b' b); reflexivity.
  - destruct (Nat.eqb b b0) eqn:E; cbn.
    + apply Nat.eqb_eq in E. subst b0. destruct (Nat.eqb b' b); reflexivity.
    + rewrite IH. destruct (Nat.eqb b' b0) eqn:E'; [|reflexivity].
      apply Nat.eqb_eq in E'. subst b0. rewrite Nat.eqb_sym in E. now rewrite E.
Qed.

Lemma group_add_keys b u g :
  map fst (group_add b u g) = if existsb (Nat.eqb b) (map fst g) then map fst g else map fst g ++ [b].
Proof.
  induction g as [|[b0 l] r IH]; cbn; [reflexivity|].
  destruct (Nat.eqb b b0) eqn:E; cbn; [reflexivity|]. rewrite IH.
  destruct (existsb (Nat.eqb b) (map fst r)); reflexivity.
Qed.

Lemma group_add_nodup b u g : NoDup (map fst g) -> NoDup (map fst (group_add b u g)).
Proof.
  intros H. rewrite group_add_keys. destruct (existsb (Nat.eqb b) (map fst g)) eqn:E; [assumption|].
  apply NoDup_app_iff'. repeat split; [assumption|constructor; [tauto|constructor]|].
  intros a Ha [Hb|[]]. subst a. assert (existsb (Nat.eqb b) (map fst g) = true); [|congruence].
  apply existsb_exists. exists b. split; [assumption|apply Nat.eqb_refl].
Qed.

Lemma group_from_nodup t us : forall g, NoDup (map fst g) -> NoDup (map fst (group_from t us g)).
Proof.
  induction us as [|u r IH]; intros g H; cbn; [assumption|].
  apply IH. destruct (tget t (u_scheme u)); [now apply group_add_nodup|assumption].
Qed.

Lemma group_from_get t us : forall g b,
  gget b (group_from t us g) =
  match gget b g, filter (own t b) us with
  | Some l, f => Some (l ++ f)
  | None, [] => None
  | None, f => Some f
  end.
Proof.
  induction us as [|u r IH]; intros g b; cbn [group_from filter].
  - destruct (gget b g); [now rewrite app_nil_r|reflexivity].
  - rewrite IH. assert (Ho : own t b u = match tget t (u_scheme u) with Some b' => Nat.eqb b' b | None => false end)
      by reflexivity.
    destruct (tget t (u_scheme u)) as [b0|] eqn:Et.
    + rewrite group_add_get. destruct (Nat.eqb b0 b) eqn:E; rewrite Ho.
      * apply Nat.eqb_eq in E. subst b0. rewrite Nat.eqb_refl.
        destruct (gget b g); [now rewrite <- app_assoc|reflexivity].
      * rewrite Nat.eqb_sym in E. rewrite E. reflexivity.
    + rewrite Ho. reflexivity.
Qed.

Lemma In_gget g : NoDup (map fst g) -> forall b l, In (b, l) g <-> gget b g = Some l.
Proof.
  induction g as [|[b0 l0] r IH]; intros Hnd b l; cbn.
  - split; [tauto|discriminate].
  - cbn in Hnd. inversion Hnd as [|? ? Hx Hr]; subst. destruct (Nat.eqb b b0) eqn:E.
    + apply Nat.eqb_eq in E. subst b0. split.
      * intros [[= ->]|H]; [reflexivity|]. exfalso. apply Hx. apply in_map_iff. now exists (b, l).
      * intros [= ->]. now left.
    + apply Nat.eqb_neq in E. rewrite <- (IH Hr). split; [intros [[= -> ->]|H]; [congruence|assumption]|auto].
Qed.

Lemma group_nodup t us : NoDup (map fst (group t us)).
Proof. apply group_from_nodup. constructor. Qed.

(* the group of backend b is exactly the sub-list of request URIs routed to b, if not empty *)
Theorem group_spec t us b l :
  In (b, l) (group t us) <-> l = filter (own t b) us /\ l <> [].
Proof.
  rewrite (In_gget _ (group_nodup t us)). unfold group. rewrite group_from_get. cbn [gget].
  destruct (filter (own t b) us) as [|x f]; split.
  - discriminate.
  - intros [-> H]. congruence.
  - intros [= <-]. split; [reflexivity|discriminate].
  - intros [-> _]. reflexivity.
Qed.

Lemma nonempty_groups_none (l : list nat) : nonempty_groups (map (fun b => (b, None)) l) = [].
Proof. induction l; cbn; auto. Qed.

Lemma nonempty_groups_some (g : groups) :
  (forall b l, In (b, l) g -> l <> []) -> nonempty_groups (map (fun x => (fst x, Some (snd x))) g) = g.
Proof.
  induction g as [|[b l] r IH]; intros H; cbn; [reflexivity|].
  destruct l as [|u l]; [exfalso; apply (H b []); [now left|reflexivity]|].
  f_equal. apply IH. intros b' l' Hin. apply (H b' l'). now right.
Qed.

Theorem routed_groups t us : nonempty_groups (backends_to_uris t (Some us)) = group t us.
Proof.
  unfold backends_to_uris. destruct us as [|u r].
  - apply nonempty_groups_none.
  - apply nonempty_groups_some. intros b l H. apply group_spec in H. tauto.
Qed.

Lemma own_true t b u : own t b u = true <-> tget t (u_scheme u) = Some b.
Proof.
  unfold own. destruct (tget t (u_scheme u)) as [b'|]; [|split; discriminate].
  rewrite Nat.eqb_eq. split; [now intros ->|now intros [= ->]].
Qed.

(* a URI lies in the group of b iff it was requested and is routed to b *)
Lemma in_group_list t us b l u : In (b, l) (group t us) -> (In u l <-> In u us /\ tget t (u_scheme u) = Some b).
Proof.
  intros H. apply group_spec in H. destruct H as [-> _]. rewrite filter_In, own_true. tauto.
Qed.

Lemma group_complete t us b u :
  In u us -> tget t (u_scheme u) = Some b -> In (b, filter (own t b) us) (group t us).
Proof.
  intros Hu Ht. apply group_spec. split; [reflexivity|]. intro E.
  assert (In u (filter (own t b) us)) by (apply filter_In; split; [assumption|now apply own_true]).
  rewrite E in H. contradiction.
Qed.
