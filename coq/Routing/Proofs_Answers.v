(* "validation.check_* on every backend return value": the acceptance tests of the routing
   model coincide with the validation layer evaluated on the answer rendered as a Python value. *)
From Coq Require Import ZArith List Bool Lia.
From Common Require Import Res Str.
From Routing Require Import Model Scheme Obs Spec Validation Front Proofs_Tables Proofs_Sets Proofs_Validation.
Import ListNotations.
Open Scope Z_scope.

Section Answers.
  Variable key_text : uri -> str.
  Notation ev := (entry_val key_text).
  Notation rv := (resp_val key_text).

  Lemma entry_is_isinstance c e : entry_is c e = isinstance (cls_ty c) (ev e).
  Proof. destruct e as [|c' id h|u]; [destruct c; reflexivity|destruct c, c'; reflexivity|destruct c; reflexivity]. Qed.

  Lemma forallb_entry_is c l : forallb (entry_is c) l = forallb (isinstance (cls_ty c)) (map ev l).
  Proof. induction l as [|e r IH]; cbn; [reflexivity|]. now rewrite entry_is_isinstance, IH. Qed.

  (* sequence-valued answers (browse, as_list, get_items, get_distinct) *)
  Theorem as_instances_is_check_instances c r :
    (exists l, as_instances c r = Some l) <-> check_instances (rv r) (cls_ty c) = Ok tt.
  Proof.
    unfold check_instances, vok, vfail. destruct r as [k| | |items|l|c' id|b|z]; cbn [as_instances resp_val iter_elems];
      try (split; [intros [l H]; discriminate|discriminate]).
    - (* dict: iterated by key *)
      rewrite map_map. cbn [fst].
      assert (E : forallb (entry_is c) (map (fun it : uri * mval => EUriStr (fst it)) items)
                  = forallb (isinstance (cls_ty c)) (map (fun x : uri * mval => PStr (key_text (fst x))) items)).
      { induction items as [|it r IH]; cbn; [reflexivity|]. rewrite IH. now destruct c. }
      rewrite E. clear E. destruct (forallb _ _); split;
        [intros _; reflexivity|intros _; eexists; reflexivity|intros [l H]; discriminate|discriminate].
    - rewrite forallb_entry_is. destruct (forallb _ _); split;
        [intros _; reflexivity|intros _; eexists; reflexivity|intros [l' H]; discriminate|discriminate].
    - destruct c'; cbn; split; try (intros [l H]; discriminate); try discriminate; destruct c; discriminate.
  Qed.

  (* single-object answers (search, root_directory, playlists lookup/create/save) *)
  Theorem single_object_is_check_instance c r :
    match c with CStr | CInt => False | _ => True end ->
    (exists id, r = RVal c id) <-> check_instance (rv r) (TModel c) = Ok tt.
  Proof.
    intros Hc. unfold check_instance, vok, vfail.
    destruct r as [k| | |items|l|c' id|b|z]; cbn; try (split; [intros [i H]; discriminate|discriminate]).
    destruct c'; cbn; try (destruct c; cbn; split; try (intros [i [= ]]); try discriminate; try contradiction; eauto).
  Qed.

  (* dict-valued answers (lookup_many, get_images): a Mapping whose keys were asked for and
     whose values are acceptable sequences *)
  Theorem acceptable_is_validation c asked r :
    acceptable c asked r = true <->
    check_instance (rv r) TMapping = Ok tt /\
    exists items, r = RMap items /\
      Forall (fun it => In (fst it) asked /\
                        check_instances (mval_val key_text (snd it)) (cls_ty c) = Ok tt) items.
  Proof.
    unfold acceptable. destruct r as [k| | |items|l|c' id|b|z];
      try (split; [discriminate|intros [_ (i & H & _)]; discriminate]).
    rewrite forallb_forall. split.
    - intros H. split; [reflexivity|]. exists items. split; [reflexivity|]. apply Forall_forall. intros it Hit.
      specialize (H it Hit). unfold item_ok in H. apply andb_true_iff in H. destruct H as [H1 H2].
      split; [now apply mem_uri_In|]. destruct (snd it) as [|l]; [discriminate|].
      unfold check_instances. cbn. rewrite <- forallb_entry_is, H2. reflexivity.
    - intros [_ (i & [= <-] & H)] it Hit. rewrite Forall_forall in H. destruct (H it Hit) as [H1 H2]. unfold item_ok.
      apply andb_true_iff. split; [now apply mem_uri_In|]. destruct (snd it) as [|l]; [discriminate|].
      unfold check_instances in H2. cbn in H2. rewrite <- forallb_entry_is in H2.
      destruct (forallb (entry_is c) l); [reflexivity|discriminate].
  Qed.

  (* mixer answers to writes / to get_mute *)
  Theorem mixer_answers_are_validation r :
    (write_answer_ok r = true <-> check_instance (rv r) TBool = Ok tt) /\
    (mute_answer_ok r = true <-> r = RNone \/ check_instance (rv r) TBool = Ok tt).
  Proof.
    unfold check_instance, vok, vfail. split.
    - destruct r as [k| | |items|l|c' id|b|z]; cbn; try (split; discriminate); try tauto.
      destruct c'; cbn; split; discriminate.
    - destruct r as [k| | |items|l|c' id|b|z]; cbn;
        try (split; [discriminate|intros [H|H]; discriminate]); try tauto.
      destruct c'; cbn; (split; [discriminate|intros [H|H]; discriminate]).
  Qed.
End Answers.
