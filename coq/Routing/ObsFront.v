(* Correspondence cases for the raw front door (Front.run_raw). *)
From Coq Require Import ZArith List Bool.
From Common Require Import Res Str Cases.
From Routing Require Import Model Scheme Obs Spec Validation Front.
Import ListNotations.
Open Scope Z_scope.

Record rcase := mkRCase {
  r_backends : list backend;
  r_mixer : option mixer;
  r_op : raw_op;
  r_ordered : bool;
  r_texts : list (str * str * Z);      (* URI text, urlparse scheme, the harness's enc of the text *)
  r_impl : obs
}.

Definition rtexts_ok (c : rcase) : bool :=
  forallb (fun p => let '(s, sch, n) := p in Str.str_eqb (scheme_of s) sch && (enc s =? n)) (r_texts c).

Definition rcase_ok (c : rcase) : bool :=
  rtexts_ok c && obs_eqb (r_ordered c) (run_raw (r_backends c) (r_mixer c) (r_op c)) (r_impl c).

(* the trace predicate for a raw request: an argument rejected by validation means no provider
   was touched and exactly that exception; otherwise the predicate of the typed request *)
Definition rtrace_ok_b (P : list backend) (r : raw_op) (ob : obs) : bool :=
  match validate r with
  | Ok o => trace_ok_b P o ob
  | Raise k =>
      match mk_backends P with
      | Ok _ => match ob with ([], Raise k') => kind_eqb k k' | _ => false end
      | _ => trace_ok_b P OConstruct ob
      end
  | Diverge => false
  end.

Definition rtrace_ok_case (c : rcase) : bool := rtrace_ok_b (r_backends c) (r_op c) (r_impl c).

(* constants of validation.py against the model's copies (as sets) *)
Definition consts_ok (search : list str) (distinct : list (str * bool)) : bool :=
  perm_eqb Str.str_eqb search search_fields &&
  perm_eqb (fun a b => Str.str_eqb (fst a) (fst b) && Bool.eqb (snd a) (snd b)) distinct distinct_field_table.

Fixpoint pyval_eqb (a b : pyval) : bool :=
  let fix leq (x y : list pyval) : bool :=
    match x, y with
    | [], [] => true
    | p :: x', q :: y' => pyval_eqb p q && leq x' y'
    | _, _ => false
    end in
  let fix deq (x y : list (pyval * pyval)) : bool :=
    match x, y with
    | [], [] => true
    | (k, v) :: x', (k', v') :: y' => pyval_eqb k k' && pyval_eqb v v' && deq x' y'
    | _, _ => false
    end in
  match a, b with
  | PNone, PNone | PJunk, PJunk => true
  | PBool x, PBool y => Bool.eqb x y
  | PInt x, PInt y | PFloat x, PFloat y => x =? y
  | PStr x, PStr y | PBytes x, PBytes y => Str.str_eqb x y
  | PList x, PList y | PTuple x, PTuple y | PSet x, PSet y | PIter x, PIter y => leq x y
  | PDict x, PDict y => deq x y
  | PObj c i, PObj c' i' => cls_eqb c c' && (i =? i')
  | _, _ => false
  end.

(* the query tokens are the harness's concrete query dicts *)
Definition token_ok (p : squery * pyval) : bool := pyval_eqb (squery_val (fst p)) (snd p).

(* Front.resp_val against the harness's rendering of scripted answers: the real validation
   function applied to the rendered Python object must give what the validation model gives
   on resp_val.  mode 0: check_instances(x, cls); 1: check_instance(x, cls); 2: check_instance(x, Mapping) *)
Definition key_text_of (t : list (uri * str)) (u : uri) : str :=
  match find (fun p => uri_eqb u (fst p)) t with Some p => snd p | None => [] end.

Definition acase_ok (c : resp * cls * Z * list (uri * str) * Z) : bool :=
  let '(r, cl, mode, t, code) := c in
  let v := resp_val (key_text_of t) r in
  vcode (if mode =? 0 then check_instances v (cls_ty cl)
         else if mode =? 1 then check_instance v (cls_ty cl)
         else check_instance v TMapping) =? code.
