(* Specification vocabulary of the C09 theorems: ownership of schemes, the routing rule, what
   an acceptable answer is, population equivalence up to one backend's answers, per-backend
   contributions of the aggregate requests, the shape of what may be raised, and the concrete
   witness populations.  No proofs here (they are in Proofs_*.v). *)
From Coq Require Import ZArith List Bool.
From Common Require Import Res Str.
From Routing Require Import Model Scheme Obs.
Import ListNotations.
Open Scope Z_scope.

(* ------------------------------------------------------------------ specification of the tables *)

Fixpoint spec_table (flag : backend -> bool) (i : nat) (bs : list backend) : table :=
  match bs with
  | [] => []
  | b :: r =>
      (if b_info_ok b && flag b then map (fun s => (s, i)) (b_schemes b) else [])
        ++ spec_table flag (S i) r
  end.

(* backend number i offers the provider selected by flag and registered scheme s *)
Definition owns (flag : backend -> bool) (P : list backend) (i : nat) (s : scheme) : Prop :=
  exists b, nth_error P i = Some b /\ b_info_ok b = true /\ flag b = true /\ In s (b_schemes b).

(* ------------------------------------------------------------------ routing of request URIs *)

(* does the table route URI u to backend b? *)
Definition own (t : table) (b : nat) (u : uri) : bool :=
  match tget t (u_scheme u) with Some b' => Nat.eqb b' b | None => false end.

(* ------------------------------------------------------------------ result dicts *)

Definition keys (m : rmap) : list uri := map fst m.

(* ------------------------------------------------------------------ T2 exact routing of lookup / get_images *)

(* the calls made by lookup / get_images, characterised without reference to the tables:
   sound (only owners are asked, with exactly their URIs, in request order), complete (every
   owner of a requested URI is asked), and at most one call per backend *)
Definition routed_exactly (P : list backend) (T : tables) (mth : meth) (us : list uri) (log : list call) : Prop :=
  (forall w m a, In (w, m, a) log ->
     exists b, w = Bk b /\ m = mth /\ a = AUris (filter (own (t_lib T) b) us) /\
               filter (own (t_lib T) b) us <> [] /\
               forall u, In u (filter (own (t_lib T) b) us) <-> In u us /\ owns b_lib P b (u_scheme u)) /\
  (forall u b, In u us -> owns b_lib P b (u_scheme u) ->
     In (Bk b, mth, AUris (filter (own (t_lib T) b) us)) log) /\
  NoDup (map (fun c : call => fst (fst c)) log).

(* ------------------------------------------------------------------ T4 non-interference *)

Definition same_shape (b b' : backend) : Prop :=
  b_schemes b = b_schemes b' /\ b_info_ok b = b_info_ok b' /\ b_lib b = b_lib b' /\
  b_browse b = b_browse b' /\ b_playback b = b_playback b' /\ b_playlists b = b_playlists b'.

(* P and P' are the same population except for the answers of backend number j *)
Definition differ_only_at (j : nat) (P P' : list backend) : Prop :=
  Forall2 same_shape P P' /\ forall i, i <> j -> nth_error P i = nth_error P' i.

(* validation of a whole answer: a dict whose keys were asked for and whose values are
   sequences of the expected class *)
Definition acceptable (c : cls) (asked : list uri) (r : resp) : bool :=
  match r with RMap items => forallb (item_ok c asked) items | _ => false end.

(* requests that are not restricted by a URI: the method they invoke and the provider asked *)
Definition unrestricted_op (o : op) : option (meth * (backend -> bool)) :=
  match o with
  | OSearch q None _ | OSearch q (Some []) _ =>
      match sq_normalize q with
      | SQGood | SQGood2 => Some (MSearch, b_lib)
      | _ => None
      end
  | ODistinct f q => if field_valid f && dq_valid q then Some (MDistinct, b_lib) else None
  | ORefresh None => Some (MRefresh, b_lib)
  | OBrowse BNone => Some (MRoot, b_browse)
  | OAsList => Some (PAsList, b_playlists)
  | OPlRefresh None => Some (PRefresh, b_playlists)
  | _ => None
  end.

(* ------------------------------------------------------------------ whose answer a call got *)

Definition answer_of (P : list backend) (mx : option mixer) (w : who) (m : meth) (a : arg) : resp :=
  match w with
  | Bk b => ans P b m a
  | Mx => match mx with Some f => f m a | None => RNone end
  end.

(* the only exceptions of a provider that the core lets through *)
Definition raise_excuse (w : who) (m : meth) (k : kind) : Prop :=
  k = KBase \/
  ((exists b, w = Bk b) /\ ((m = MSearch /\ k = KLookup) \/ (m = PSave /\ k = KAssertion))).

(* ------------------------------------------------------------------ T5a: what can leave a core request *)

Definition raise_shape (P : list backend) (mx : option mixer) (log : list call) (out : outcome) : Prop :=
  match out with
  | Ok _ => True
  | Raise k =>
      (k = KValidation /\ log = []) \/
      exists w m a, In (w, m, a) log /\ answer_of P mx w m a = RRaise k /\ raise_excuse w m k
  | Diverge => False
  end.

(* ------------------------------------------------------------------ providers and their arguments *)

(* which provider a method belongs to *)
Definition flag_of (m : meth) : backend -> bool :=
  match m with
  | MBrowse | MRoot => b_browse
  | PAsList | PGetItems | PLookup | PCreate | PSave | PDelete | PRefresh => b_playlists
  | _ => b_lib
  end.

(* the URIs a provider is handed *)
Definition arg_uris (a : arg) : list uri :=
  match a with
  | AUris l => l
  | ASearch _ (Some l) _ => l
  | AUri u => [u]
  | AOptUri (Some u) => [u]
  | APlaylist u _ => [u]
  | _ => []
  end.

(* T3 for the requests that name one URI: without an owner no provider is asked and the
   answer is the empty one (or the caller's URI is rejected) *)
Definition single_uri_op (o : op) : option (uri * (backend -> bool) * value) :=
  match o with
  | OBrowse (BUri u) => Some (u, b_browse, VList [])
  | OGetItems u => Some (u, b_playlists, VNone)
  | OPlLookup u => Some (u, b_playlists, VNone)
  | OSave (Some u) _ => Some (u, b_playlists, VNone)
  | ODelete u => Some (u, b_playlists, VBool false)
  | _ => None
  end.

(* ------------------------------------------------------------------ aggregate requests *)

Definition search_contrib (r : resp) : list entry :=
  match r with RVal CSearch id => [EObj CSearch id true] | _ => [] end.

(* the providers library.search asks: none for an empty query *)
Definition search_targets (T : tables) (q : squery) (us : option (list uri)) : list (nat * option (list uri)) :=
  match sq_normalize q with
  | SQEmpty => []
  | _ => backends_to_uris (t_lib T) us
  end.

Definition as_list_contrib (r : resp) : list entry :=
  match r with
  | RRaise _ | RNone => []
  | r => match as_instances CRef r with Some l => l | None => [] end
  end.

(* an acceptable answer of the mixer to a read / to a write *)
Definition volume_answer_ok (r : resp) : bool :=
  match r with
  | RNone | RBool _ => true
  | RInt z => (0 <=? z) && (z <=? 100)
  | _ => false
  end.

(* ------------------------------------------------------------------ T6 mixer *)

Definition mute_answer_ok (r : resp) : bool := match r with RNone | RBool _ => true | _ => false end.

Definition write_answer_ok (r : resp) : bool := match r with RBool _ => true | _ => false end.

Definition not_base (r : resp) : Prop := r <> RRaise KBase.

(* ------------------------------------------------------------------ set-valued aggregates *)

Definition root_contrib (r : resp) : list entry :=
  match r with RVal CRef id => [EObj CRef id true] | _ => [] end.

Definition distinct_contrib (c : cls) (r : resp) : list entry :=
  match r with
  | RRaise _ | RNone => []
  | r => match as_instances c r with Some l => l | None => [] end
  end.

(* no provider and no mixer ever raises anything but an ordinary exception *)
Definition ordinary_population (P : list backend) (mx : option mixer) : Prop :=
  (forall b m a k, ans P b m a = RRaise k -> ordinary k = true) /\
  (forall f m a k, mx = Some f -> f m a = RRaise k -> ordinary k = true).

(* the property as stated: an ordinary fault never makes a core request raise (only the
   caller's own invalid argument does, before any provider is touched) *)
Definition faults_never_raise_full : Prop :=
  forall T P mx o log k,
    ordinary_population P mx -> run_op T P mx o = (log, Raise k) -> k = KValidation /\ log = [].

(* ------------------------------------------------------------------ T5a at full strength *)



Definition flaky (k : kind) : backend := mkB [1] true true true true true (fun _ _ => RRaise k).

(* the two legacy re-raises are the only exceptions *)
Definition no_legacy_reraise (P : list backend) : Prop :=
  forall b a, ans P b MSearch a <> RRaise KLookup /\ ans P b PSave a <> RRaise KAssertion.

(* non-vacuity: a population in which every provider method of backend 0 raises an ordinary
   error satisfies the hypotheses, and requests still succeed with backend 1's answers *)
Definition good1 : backend :=
  mkB [2] true true true true true
      (script [(MLookupMany, RMap [((2, 7), MList [EObj CTrack 2001 true])]); (MSearch, RVal CSearch 2002)]).

(* ------------------------------------------------------------------ witness populations *)

Definition trk (i : Z) : entry := EObj CTrack i true.

Definition img (i : Z) : entry := EObj CImage i true.

Definition lib (ss : list scheme) (l : list (meth * resp)) : backend := mkB ss true true true true true (script l).

Definition pA : backend := lib [1] [(MLookupMany, RMap [((1, 1), MList [trk 1])]); (MGetImages, RMap [((1, 1), MList [img 1])])].

Definition pB : backend := lib [2] [(MLookupMany, RMap [((2, 1), MList [trk 2001])]); (MGetImages, RMap [((2, 1), MList [img 2001])])].

Definition pB' : backend :=
  lib [2] [(MLookupMany, RMap [((2, 1), MList [trk 2001]); ((1, 1), MList [trk 2002])]);
           (MGetImages, RMap [((2, 1), MList [img 2001]); ((1, 1), MList [img 2002])])].

(* populations of the non-vacuity examples *)
Definition pC : backend := mkB [3] true false false false true (script []).
Definition pD : backend := lib [4] [(MLookupMany, RRaise KLookup)].
Definition pW : backend :=
  lib [5] [(MBrowse, RVal CRef 7); (PGetItems, RList [EObj CTrack 1 true]); (PLookup, RVal CRef 7);
           (PSave, RRaise KException); (PDelete, RWrong)].
Definition mxW : mixer :=
  script [(XGetVolume, RInt 101); (XSetVolume, RNone); (XGetMute, RWrong); (XSetMute, RRaise KException)].

(* ------------------------------------------------------------------ URI scheme text *)

(* a registered scheme can only ever be matched if it is written in lower case *)
Definition lower_scheme_char (c : Z) : bool :=
  is_lower c || is_digit c || (c =? 43) || (c =? 45) || (c =? 46).

(* ---- the property predicates as one boolean function of an observation (call log + outcome),
   evaluated by the harness on the IMPLEMENTATION's observations and proved to hold for every
   observation of the model (Proofs_Trace.trace_ok_model) *)

Definition owns_b (flag : backend -> bool) (P : list backend) (i : nat) (s : scheme) : bool :=
  match nth_error P i with
  | Some b => b_info_ok b && flag b && mem_z s (b_schemes b)
  | None => false
  end.

Definition provider_b (flag : backend -> bool) (P : list backend) (i : nat) : bool :=
  match nth_error P i with
  | Some b => b_info_ok b && flag b && match b_schemes b with [] => false | _ => true end
  | None => false
  end.

Definition has_owner_b (flag : backend -> bool) (P : list backend) (s : scheme) : bool :=
  existsb (fun i => owns_b flag P i s) (seq 0 (length P)).

(* T2: the call goes to a backend offering the provider, with URIs of its own schemes only *)
Definition call_sound_b (P : list backend) (c : call) : bool :=
  match c with
  | (Bk b, m, a) =>
      provider_b (flag_of m) P b && forallb (fun u => owns_b (flag_of m) P b (u_scheme u)) (arg_uris a)
  | (Mx, _, _) => true
  end.

Fixpoint nodup_uri_b (l : list uri) : bool :=
  match l with [] => true | u :: r => negb (mem_uri u r) && nodup_uri_b r end.

(* T1 *)
Definition keys_exact_b (us : list uri) (m : rmap) : bool :=
  nodup_uri_b (keys m) && forallb (fun u => mem_uri u us) (keys m) && forallb (fun u => mem_uri u (keys m)) us.

(* T3 *)
Definition unknown_empty_b (P : list backend) (us : list uri) (m : rmap) : bool :=
  forallb (fun u => has_owner_b b_lib P (u_scheme u) ||
                    match rget m u with Some [] => true | _ => false end) us.

(* T5b (typing part): only well-typed entries ever reach a result *)
Definition values_typed_b (ok : entry -> bool) (m : rmap) : bool :=
  forallb (fun kv => forallb ok (snd kv)) m.

(* T5a: what may be raised, as far as an observation shows it *)
Definition raise_ok_b (o : op) (k : kind) (log : list call) : bool :=
  match k with
  | KValidation => match log with [] => true | _ => false end
  | KAssertion => match log with [] => true | _ => match o with OSave _ _ => true | _ => false end end
  | KLookup => match o with OSearch _ _ _ => true | _ => false end
  | KBase => match log with [] => false | _ => true end
  | _ => false
  end.

Definition trace_ok_b (P : list backend) (o : op) (ob : obs) : bool :=
  forallb (call_sound_b P) (fst ob) &&
  match snd ob with
  | Raise k => raise_ok_b o k (fst ob)
  | Diverge => false
  | Ok v =>
      match o with
      | OLookup us =>
          match v with
          | VMap m => keys_exact_b us m && unknown_empty_b P us m &&
                      values_typed_b (fun e => entry_is CTrack e && entry_has_uri e) m
          | _ => false
          end
      | OImages us =>
          match v with
          | VMap m => keys_exact_b us m && unknown_empty_b P us m && values_typed_b (entry_is CImage) m
          | _ => false
          end
      | _ => true
      end
  end.

Definition trace_ok_case (c : case) : bool := trace_ok_b (c_backends c) (c_op c) (c_impl c).

(* provider / mixer methods a request kind can invoke *)
Definition op_meths (o : op) : list meth :=
  match o with
  | OConstruct | OSchemes | OCoreSchemes => []
  | OLookup _ => [MLookupMany]
  | OImages _ => [MGetImages]
  | OSearch _ _ _ => [MSearch]
  | OBrowse _ => [MRoot; MBrowse]
  | ODistinct _ _ => [MDistinct]
  | ORefresh _ => [MRefresh]
  | OAsList => [PAsList]
  | OGetItems _ => [PGetItems]
  | OPlLookup _ => [PLookup]
  | OCreate _ _ => [PCreate]
  | OSave _ _ => [PSave]
  | ODelete _ => [PDelete]
  | OPlRefresh _ => [PRefresh]
  | OGetVolume => [XGetVolume]
  | OSetVolume _ => [XSetVolume]
  | OGetMute => [XGetMute]
  | OSetMute _ => [XSetMute]
  end.

Definition is_mixer_meth (m : meth) : bool :=
  match m with XGetVolume | XSetVolume | XGetMute | XSetMute => true | _ => false end.

(* ------------------------------------------------------------------ single-backend requests, create, findings *)

(* the one provider call a single-URI request makes when the scheme has an owner *)
Definition single_call (o : op) : option (meth * arg) :=
  match o with
  | OBrowse (BUri u) => Some (MBrowse, AUri u)
  | OGetItems u => Some (PGetItems, AUri u)
  | OPlLookup u => Some (PLookup, AUri u)
  | OSave (Some u) n => Some (PSave, APlaylist u n)
  | ODelete u => Some (PDelete, AUri u)
  | _ => None
  end.

(* answers of the documented type for that call *)
Definition single_answer_ok (o : op) (r : resp) : bool :=
  match o with
  | OBrowse _ => match as_instances CRef r with Some _ => true | None => false end
  | OGetItems _ => match r with RNone => true | _ => match as_instances CRef r with Some _ => true | None => false end end
  | OPlLookup _ | OSave _ _ => match r with RNone | RVal CPlaylist _ => true | _ => false end
  | ODelete _ => match r with RNone | RBool _ => true | _ => false end
  | _ => false
  end.

Definition table_for (flag : backend -> bool) (T : tables) (o : op) : table :=
  match o with OBrowse _ => t_browse T | _ => t_playlists T end.

(* T5b for the single-URI requests, at full strength: an answer of the wrong type (or an
   ordinary exception) leaves the caller with the empty value *)
Definition single_bad_answer_discarded_full : Prop :=
  forall T P mx o u flag empty b m a,
    single_uri_op o = Some (u, flag, empty) -> single_call o = Some (m, a) ->
    bad_uri u = false \/ m = PLookup \/ m = PSave ->
    tget (table_for flag T o) (u_scheme u) = Some b ->
    ans P b m a <> RRaise KBase -> (m = PSave -> ans P b m a <> RRaise KAssertion) ->
    single_answer_ok o (ans P b m a) = false ->
    snd (run_op T P mx o) = Ok empty.

Definition is_delete (o : op) : bool := match o with ODelete _ => true | _ => false end.

(* get_distinct at full strength: every value was an element of some provider's sequence *)
Definition distinct_values_listed_full : Prop :=
  forall T P f q log l e,
    get_distinct T P f q = (log, Ok (VList l)) -> In e l ->
    exists b es, ans P b MDistinct (ADistinct (field_compat f) q) = RList es /\ In e es.

Definition no_dict_answer (P : list backend) : Prop :=
  forall b a it items, ans P b MDistinct a <> RMap (it :: items).

(* what create does with one provider's answer *)
Definition create_accepts (r : resp) : option Z := match r with RVal CPlaylist id => Some id | _ => None end.

(* ------------------------------------------------------------------ full statements modulo the recorded findings *)

(* what playlists.delete hands through when the answer is neither None, a bool nor an exception *)
Definition delete_passthrough (r : resp) : value := match r with RInt z => VInt z | _ => VRaw end.

(* ------------------------------------------------------------------ core events
   The playlists controller broadcasts playlist_changed / playlist_deleted / playlists_loaded.
   events_spec gives the events a request must emit as a function of its VALIDATED outcome (and,
   for refresh, of which asked providers answered): an event only ever carries the value the
   call returns after validation, and nothing is broadcast for a discarded answer.  None = not
   determined (playlists.delete handing a non-bool answer through: recorded finding).
   The harness records the events at mopidy.listener.send and evaluates events_ok on them. *)
Inductive event := EvPlaylistChanged (id : Z) | EvPlaylistDeleted (u : uri) | EvPlaylistsLoaded | EvOther.

Definition event_eqb (a b : event) : bool :=
  match a, b with
  | EvPlaylistChanged i, EvPlaylistChanged j => i =? j
  | EvPlaylistDeleted u, EvPlaylistDeleted v => uri_eqb u v
  | EvPlaylistsLoaded, EvPlaylistsLoaded => true
  | _, _ => false
  end.

Definition answered (P : list backend) (c : call) : bool :=
  match c with
  | (Bk b, m, a) => match ans P b m a with RRaise _ => false | _ => true end
  | _ => false
  end.

Definition events_spec (P : list backend) (o : op) (ob : obs) : option (list event) :=
  match o with
  | OCreate _ _ | OSave _ _ =>
      Some (match snd ob with Ok (VVal CPlaylist id) => [EvPlaylistChanged id] | _ => [] end)
  | ODelete u =>
      match snd ob with
      | Ok (VBool true) => Some [EvPlaylistDeleted u]
      | Ok (VBool false) | Raise _ => Some []
      | _ => None
      end
  | OPlRefresh _ =>
      match snd ob with
      | Ok _ => Some (if existsb (answered P) (fst ob) then [EvPlaylistsLoaded] else [])
      | _ => None
      end
  | _ => Some []
  end.

Definition events_ok (c : case * list event) : bool :=
  match events_spec (c_backends (fst c)) (c_op (fst c)) (c_impl (fst c)) with
  | Some evs => list_eqb event_eqb evs (snd c)
  | None => true
  end.
