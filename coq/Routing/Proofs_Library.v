(* C09 for library.lookup / library.get_images: key exactness, exact routing, unknown schemes,
   non-interference, containment of bad answers. *)
From Coq Require Import ZArith List Bool Lia Arith FinFun.
From Common Require Import Res.
From Routing Require Import Model Scheme Obs Spec Proofs_Tables Proofs_Group Proofs_Merge.
Import ListNotations.
Open Scope Z_scope.

Lemma merge_ok_valid mth c upd T P us log v :
  merge_request mth c upd T P us = (log, Ok v) -> existsb bad_uri us = false.
Proof.
  unfold merge_request. destruct (existsb bad_uri us); [discriminate|reflexivity].
Qed.

Definition upd_get_spec (f : list entry -> mval -> list entry) (upd : updater) : Prop :=
  forall m k v old u,
    rget m k = Some old -> rget (upd m k v) u = if uri_eqb u k then Some (f old v) else rget m u.
Definition upd_keys_spec (upd : updater) : Prop :=
  forall m k v old, rget m k = Some old -> keys (upd m k v) = keys m.

(* ------------------------------------------------------------------ T1 keys *)

Lemma lookup_keys_exact_lemma T P us log v :
  lookup T P us = (log, Ok v) ->
  exists m, v = VMap m /\ NoDup (keys m) /\ forall u, In u (keys m) <-> In u us.
Proof.
  intros H. pose proof (merge_ok_valid _ _ _ _ _ _ _ _ H) as Hv.
  destruct (lookup_spec P T us log (Ok v) H Hv) as [_ (m & -> & _ & Hn & Hk & _)]. eauto.
Qed.

Lemma images_keys_exact_lemma T P us log v :
  get_images T P us = (log, Ok v) ->
  exists m, v = VMap m /\ NoDup (keys m) /\ forall u, In u (keys m) <-> In u us.
Proof.
  intros H. pose proof (merge_ok_valid _ _ _ _ _ _ _ _ H) as Hv.
  destruct (images_spec P T us log (Ok v) H Hv) as [_ (m & -> & _ & Hn & Hk & _)]. eauto.
Qed.

(* ------------------------------------------------------------------ T2 routing *)

Lemma own_owns P T b u : mk_backends P = Ok T ->
  (own (t_lib T) b u = true <-> owns b_lib P b (u_scheme u)).
Proof. intros H. rewrite own_true. now apply tget_owner_lib. Qed.


Lemma merge_routing f upd (Hg : upd_get_spec f upd) (Hk : upd_keys_spec upd) mth c P T us log out :
  mk_backends P = Ok T ->
  merge_request mth c upd T P us = (log, out) ->
  (existsb bad_uri us = true /\ log = [] /\ out = Raise KValidation) \/
  (existsb bad_uri us = false /\ routed_exactly P T mth us log).
Proof.
  intros HT H. destruct (existsb bad_uri us) eqn:Hb.
  - left. rewrite merge_request_invalid in H by assumption. injection H as <- <-. auto.
  - right. split; [reflexivity|].
    destruct (merge_request_spec f upd Hg Hk mth c P T us log out H Hb) as [-> _].
    split; [|split].
    + intros w m a Hin. apply in_map_iff in Hin. destruct Hin as ([b l] & [= <- <- <-] & Hgl). cbn.
      pose proof Hgl as Hs. apply group_spec in Hs. destruct Hs as [-> Hne].
      exists b. split; [reflexivity|]. split; [reflexivity|]. split; [reflexivity|]. split; [assumption|].
      intros u. rewrite filter_In, (own_owns P T b u HT). tauto.
    + intros u b Hu Ho. apply in_map_iff. exists (b, filter (own (t_lib T) b) us). split; [reflexivity|].
      apply (group_complete _ _ _ u); [assumption|]. now apply (tget_owner_lib P T).
    + rewrite map_map. cbn [fst].
      rewrite <- (map_map fst Bk). apply FinFun.Injective_map_NoDup; [|apply group_nodup].
      intros x y [= ->]. reflexivity.
Qed.

Definition lookup_routing := merge_routing lookup_f lookup_upd lookup_upd_get lookup_upd_keys MLookupMany CTrack.
Definition images_routing := merge_routing images_f images_upd images_upd_get images_upd_keys MGetImages CImage.

(* ------------------------------------------------------------------ T3 unknown schemes *)

Lemma merge_unknown_empty f upd (Hg : upd_get_spec f upd) (Hk : upd_keys_spec upd) mth c P T us log m u :
  mk_backends P = Ok T ->
  merge_request mth c upd T P us = (log, Ok (VMap m)) ->
  In u us -> (forall b, ~ owns b_lib P b (u_scheme u)) -> rget m u = Some [].
Proof.
  intros HT H Hu Hno. pose proof (merge_ok_valid _ _ _ _ _ _ _ _ H) as Hv.
  destruct (merge_request_spec f upd Hg Hk mth c P T us log _ H Hv) as [_ (m' & [= <-] & _ & _ & _ & Hval)].
  rewrite (Hval u Hu). unfold uri_value.
  destruct (tget (t_lib T) (u_scheme u)) as [b|] eqn:Et; [|reflexivity].
  exfalso. apply (Hno b). now apply (tget_owner_lib P T).
Qed.

Definition lookup_unknown_empty := merge_unknown_empty lookup_f lookup_upd lookup_upd_get lookup_upd_keys MLookupMany CTrack.
Definition images_unknown_empty := merge_unknown_empty images_f images_upd images_upd_get images_upd_keys MGetImages CImage.



Lemma add_schemes_shape i b b' ss seen T :
  same_shape b b' -> add_schemes i b ss seen T = add_schemes i b' ss seen T.
Proof.
  intros (_ & _ & Hl & Hb & Hp & Hq). revert seen T.
  induction ss as [|s r IH]; intros seen T; cbn; [reflexivity|].
  destruct (mem_z s seen); [reflexivity|]. rewrite Hl, Hb, Hp, Hq. apply IH.
Qed.

Lemma mk_from_shape bs bs' : Forall2 same_shape bs bs' ->
  forall i seen T, mk_from i bs seen T = mk_from i bs' seen T.
Proof.
  induction 1 as [|b b' r r' Hs Hr IH]; intros i seen T; cbn; [reflexivity|].
  pose proof Hs as (Hsch & Hinfo & _). rewrite <- Hinfo, <- Hsch.
  destruct (b_info_ok b); [|apply IH].
  rewrite (add_schemes_shape i b b' _ seen T Hs).
  destruct (add_schemes i b' (b_schemes b) seen T) as [[s1 T1]|e|]; [apply IH|reflexivity|reflexivity].
Qed.

Lemma differ_same_tables j P P' : differ_only_at j P P' -> mk_backends P = mk_backends P'.
Proof. intros [H _]. now apply mk_from_shape. Qed.

Lemma ans_elsewhere j P P' b m a : differ_only_at j P P' -> b <> j -> ans P b m a = ans P' b m a.
Proof. intros [_ H] Hb. unfold ans. now rewrite (H b Hb). Qed.

Lemma uri_value_elsewhere f mth c j P P' t us u :
  differ_only_at j P P' -> tget t (u_scheme u) <> Some j ->
  uri_value f mth c P t us u = uri_value f mth c P' t us u.
Proof.
  intros Hd Hj. unfold uri_value. destruct (tget t (u_scheme u)) as [b|]; [|reflexivity].
  assert (b <> j) by congruence. unfold good_items. cbn [fst snd].
  now rewrite (ans_elsewhere j P P' b mth _ Hd).
Qed.

Lemma merge_noninterference f upd (Hg : upd_get_spec f upd) (Hk : upd_keys_spec upd) mth c j P P' T us log m log' m' :
  differ_only_at j P P' ->
  merge_request mth c upd T P us = (log, Ok (VMap m)) ->
  merge_request mth c upd T P' us = (log', Ok (VMap m')) ->
  log = log' /\ keys m = keys m' /\
  forall u, tget (t_lib T) (u_scheme u) <> Some j -> rget m u = rget m' u.
Proof.
  intros Hd H H'. pose proof (merge_ok_valid _ _ _ _ _ _ _ _ H) as Hv.
  destruct (merge_request_spec f upd Hg Hk mth c P T us log _ H Hv) as [-> (m1 & [= <-] & K1 & Hn & Hkeys & Hval)].
  destruct (merge_request_spec f upd Hg Hk mth c P' T us log' _ H' Hv) as [-> (m2 & [= <-] & K2 & Hn' & Hkeys' & Hval')].
  split; [reflexivity|]. split.
  - congruence.
  - intros u Hj. destruct (mem_uri u us) eqn:Em;
      [apply mem_uri_In in Em; rename Em into Hu
      |assert (Hu : ~ In u us) by (intro Hin; apply mem_uri_In in Hin; congruence)].
    + rewrite (Hval u Hu), (Hval' u Hu). f_equal. now apply (uri_value_elsewhere f mth c j).
    + assert (rget m u = None).
      { destruct (rget m u) eqn:E; [|reflexivity]. exfalso. apply Hu, Hkeys. eapply rget_Some_In; eassumption. }
      assert (rget m' u = None).
      { destruct (rget m' u) eqn:E; [|reflexivity]. exfalso. apply Hu, Hkeys'. eapply rget_Some_In; eassumption. }
      congruence.
Qed.

Definition lookup_noninterference := merge_noninterference lookup_f lookup_upd lookup_upd_get lookup_upd_keys MLookupMany CTrack.
Definition images_noninterference := merge_noninterference images_f images_upd images_upd_get images_upd_keys MGetImages CImage.

(* ------------------------------------------------------------------ T5 bad answers contribute nothing *)


Lemma good_items_unacceptable mth c P b l :
  acceptable c l (ans P b mth (AUris l)) = false -> good_items mth c P (b, l) = [].
Proof.
  unfold acceptable, good_items. cbn [fst snd]. destruct (ans P b mth (AUris l)); try reflexivity.
  now intros ->.
Qed.

Lemma merge_bad_answer_discarded f upd (Hg : upd_get_spec f upd) (Hk : upd_keys_spec upd) mth c P T us log m u b :
  merge_request mth c upd T P us = (log, Ok (VMap m)) ->
  In u us -> tget (t_lib T) (u_scheme u) = Some b ->
  acceptable c (filter (own (t_lib T) b) us) (ans P b mth (AUris (filter (own (t_lib T) b) us))) = false ->
  rget m u = Some [].
Proof.
  intros H Hu Ht Hbad. pose proof (merge_ok_valid _ _ _ _ _ _ _ _ H) as Hv.
  destruct (merge_request_spec f upd Hg Hk mth c P T us log _ H Hv) as [_ (m' & [= <-] & _ & _ & _ & Hval)].
  rewrite (Hval u Hu). unfold uri_value. rewrite Ht, good_items_unacceptable by assumption. reflexivity.
Qed.

Definition lookup_bad_answer_discarded := merge_bad_answer_discarded lookup_f lookup_upd lookup_upd_get lookup_upd_keys MLookupMany CTrack.
Definition images_bad_answer_discarded := merge_bad_answer_discarded images_f images_upd images_upd_get images_upd_keys MGetImages CImage.

(* provenance: every element of a URI's value was listed under that URI by the URI's own
   backend, in an acceptable answer, and has the expected class *)
Lemma acc_lookup_prov u items : forall old e,
  In e (acc_items lookup_f u items old) ->
  In e old \/ exists v, In (u, v) items /\ In e (mval_list v) /\ entry_has_uri e = true.
Proof.
  induction items as [|[k v] r IH]; intros old e H; cbn in H; [now left|].
  apply IH in H. destruct H as [H|(v' & H1 & H2)]; [|right; exists v'; split; [now right|assumption]].
  cbn [fst snd] in H. destruct (uri_eqb u k) eqn:E; [|now left].
  apply uri_eqb_eq in E. subst k. unfold lookup_f in H. apply filter_In in H.
  right. exists v. split; [now left|assumption].
Qed.

Lemma acc_images_prov u items : forall old e,
  In e (acc_items images_f u items old) ->
  In e old \/ exists v, In (u, v) items /\ In e (mval_list v).
Proof.
  induction items as [|[k v] r IH]; intros old e H; cbn in H; [now left|].
  apply IH in H. destruct H as [H|(v' & H1 & H2)]; [|right; exists v'; split; [now right|assumption]].
  cbn [fst snd] in H. destruct (uri_eqb u k) eqn:E; [|now left].
  apply uri_eqb_eq in E. subst k. unfold images_f in H. apply in_app_or in H.
  destruct H as [H|H]; [now left|]. right. exists v. split; [now left|assumption].
Qed.

Lemma good_items_inv mth c P b l it :
  In it (good_items mth c P (b, l)) ->
  exists items, ans P b mth (AUris l) = RMap items /\ acceptable c l (RMap items) = true /\ In it items.
Proof.
  unfold good_items. cbn [fst snd]. destruct (ans P b mth (AUris l)) as [| | |items| | | |]; try contradiction.
  destruct (forallb (item_ok c l) items) eqn:E; [|contradiction]. intros H. exists items. auto.
Qed.

Lemma lookup_provenance_lemma T P us log m u es e :
  lookup T P us = (log, Ok (VMap m)) -> rget m u = Some es -> In e es ->
  exists b items v,
    tget (t_lib T) (u_scheme u) = Some b /\
    ans P b MLookupMany (AUris (filter (own (t_lib T) b) us)) = RMap items /\
    acceptable CTrack (filter (own (t_lib T) b) us) (RMap items) = true /\
    In (u, v) items /\ In e (mval_list v) /\ entry_is CTrack e = true /\ entry_has_uri e = true.
Proof.
  intros H Hm He. pose proof (merge_ok_valid _ _ _ _ _ _ _ _ H) as Hv.
  destruct (lookup_spec P T us log _ H Hv) as [_ (m' & [= <-] & _ & _ & Hkeys & Hval)].
  assert (Hu : In u us) by (apply Hkeys; eapply rget_Some_In; eassumption).
  rewrite (Hval u Hu) in Hm. injection Hm as <-. unfold uri_value in He.
  destruct (tget (t_lib T) (u_scheme u)) as [b|] eqn:Et; [|contradiction].
  apply acc_lookup_prov in He. destruct He as [[]|(v & Hin & Hev & Huri)].
  pose proof (good_items_typed _ _ _ _ _ Hin) as (l & Hl & Hty). cbn in Hl. subst v.
  apply good_items_inv in Hin. destruct Hin as (items & Ha & Hacc & Hin).
  exists b, items, (MList l). repeat split; auto.
  cbn in Hev. rewrite forallb_forall in Hty. now apply Hty.
Qed.

Lemma images_provenance_lemma T P us log m u es e :
  get_images T P us = (log, Ok (VMap m)) -> rget m u = Some es -> In e es ->
  exists b items v,
    tget (t_lib T) (u_scheme u) = Some b /\
    ans P b MGetImages (AUris (filter (own (t_lib T) b) us)) = RMap items /\
    acceptable CImage (filter (own (t_lib T) b) us) (RMap items) = true /\
    In (u, v) items /\ In e (mval_list v) /\ entry_is CImage e = true.
Proof.
  intros H Hm He. pose proof (merge_ok_valid _ _ _ _ _ _ _ _ H) as Hv.
  destruct (images_spec P T us log _ H Hv) as [_ (m' & [= <-] & _ & _ & Hkeys & Hval)].
  assert (Hu : In u us) by (apply Hkeys; eapply rget_Some_In; eassumption).
  rewrite (Hval u Hu) in Hm. injection Hm as <-. unfold uri_value in He.
  destruct (tget (t_lib T) (u_scheme u)) as [b|] eqn:Et; [|contradiction].
  apply acc_images_prov in He. destruct He as [[]|(v & Hin & Hev)].
  pose proof (good_items_typed _ _ _ _ _ Hin) as (l & Hl & Hty). cbn in Hl. subst v.
  apply good_items_inv in Hin. destruct Hin as (items & Ha & Hacc & Hin).
  exists b, items, (MList l). repeat split; auto.
  cbn in Hev. rewrite forallb_forall in Hty. now apply Hty.
Qed.

(* the calls never raise for an ordinary fault: only the caller's own bad URI (no provider is
   touched) or a BaseException from a called provider end the request *)
Lemma merge_raise f upd (Hg : upd_get_spec f upd) (Hk : upd_keys_spec upd) mth c P T us log k :
  merge_request mth c upd T P us = (log, Raise k) ->
  (k = KValidation /\ log = [] /\ existsb bad_uri us = true) \/
  (k = KBase /\ exists b a, In (Bk b, mth, a) log /\ ans P b mth a = RRaise KBase).
Proof.
  intros H. destruct (existsb bad_uri us) eqn:Hb.
  - rewrite merge_request_invalid in H by assumption. injection H as <- <-. now left.
  - right. destruct (merge_request_spec f upd Hg Hk mth c P T us log _ H Hb) as [-> (-> & g & Hgin & Ha)].
    split; [reflexivity|]. exists (fst g), (AUris (snd g)). split; [|assumption].
    apply in_map_iff. exists g. auto.
Qed.

Lemma merge_terminates f upd (Hg : upd_get_spec f upd) (Hk : upd_keys_spec upd) mth c P T us log : merge_request mth c upd T P us <> (log, Diverge).
Proof.
  intros H. destruct (existsb bad_uri us) eqn:Hb.
  - rewrite merge_request_invalid in H by assumption. discriminate.
  - now destruct (merge_request_spec f upd Hg Hk mth c P T us log _ H Hb) as [_ []].
Qed.

Definition lookup_raise := merge_raise lookup_f lookup_upd lookup_upd_get lookup_upd_keys MLookupMany CTrack.
Definition images_raise := merge_raise images_f images_upd images_upd_get images_upd_keys MGetImages CImage.
Definition lookup_terminates := merge_terminates lookup_f lookup_upd lookup_upd_get lookup_upd_keys MLookupMany CTrack.
Definition images_terminates := merge_terminates images_f images_upd images_upd_get images_upd_keys MGetImages CImage.
