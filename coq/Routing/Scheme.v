(* Transcription of the part of urllib.parse.urlsplit (CPython 3.12) that computes `.scheme`,
   which is all the core uses of a URI when routing:

       url = url.lstrip(_WHATWG_C0_CONTROL_OR_SPACE)
       for b in ('\t', '\r', '\n'): url = url.replace(b, "")
       i = url.find(':')
       if i > 0 and url[0].isascii() and url[0].isalpha():
           for c in url[:i]:
               if c not in scheme_chars: break
           else: scheme = url[:i].lower()

   Strings are lists of code points.  Correspondence-checked against urlparse on every URI
   of every generated case and on a stream of odd strings (harness/c09.py). *)
From Coq Require Import ZArith List Bool.
From Common Require Import Str.
Import ListNotations.
Open Scope Z_scope.

Definition COLON : Z := 58.

Definition c0_or_space (c : Z) : bool := (0 <=? c) && (c <=? 32).

Fixpoint lstrip_c0 (s : str) : str :=
  match s with
  | c :: t => if c0_or_space c then lstrip_c0 t else s
  | [] => []
  end.

Definition unsafe (c : Z) : bool := (c =? 9) || (c =? 13) || (c =? 10).
Definition remove_unsafe (s : str) : str := filter (fun c => negb (unsafe c)) s.

Definition is_upper (c : Z) : bool := (65 <=? c) && (c <=? 90).
Definition is_lower (c : Z) : bool := (97 <=? c) && (c <=? 122).
Definition is_ascii_alpha (c : Z) : bool := is_upper c || is_lower c.
Definition is_digit (c : Z) : bool := (48 <=? c) && (c <=? 57).
Definition scheme_char (c : Z) : bool :=
  is_ascii_alpha c || is_digit c || (c =? 43) || (c =? 45) || (c =? 46).

(* url[:url.find(':')], None when there is no colon *)
Fixpoint before_colon (s : str) : option str :=
  match s with
  | [] => None
  | c :: t => if c =? COLON then Some [] else option_map (cons c) (before_colon t)
  end.

Definition scheme_of (s : str) : str :=
  match before_colon (remove_unsafe (lstrip_c0 s)) with
  | Some (c :: r) =>
      if is_ascii_alpha c && forallb scheme_char (c :: r) then map ascii_lower (c :: r) else []
  | _ => []
  end.
