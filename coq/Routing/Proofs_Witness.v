(* Full-strength statements that the code does not satisfy (witnesses), their strongest
   provable versions, the refutations for the code before the fix: commits, run-level
   corollaries, and non-vacuity examples. *)
From Coq Require Import ZArith List Bool Lia Arith.
From Common Require Import Res.
From Routing Require Import Model Scheme Obs Spec Obs Proofs_Tables Proofs_Group Proofs_Merge Proofs_Library Proofs_Ops Proofs_Routing.
Import ListNotations.
Open Scope Z_scope.


Lemma faults_never_raise_refuted_search : ~ faults_never_raise_full.
Proof.
  intros H.
  assert (O : ordinary_population [flaky KLookup] None).
  { split; [|discriminate]. intros b m a k. unfold ans. destruct b as [|b]; cbn; [intros [= <-]; reflexivity|].
    destruct b; cbn; discriminate. }
  destruct (mk_backends [flaky KLookup]) as [T| |] eqn:E; try (vm_compute in E; discriminate).
  specialize (H T [flaky KLookup] None (OSearch SQGood None false)).
  vm_compute in E. injection E as <-.
  specialize (H _ KLookup O eq_refl). destruct H as [H _]. discriminate.
Qed.

Lemma faults_never_raise_refuted_save : ~ faults_never_raise_full.
Proof.
  intros H.
  assert (O : ordinary_population [flaky KAssertion] None).
  { split; [|discriminate]. intros b m a k. unfold ans. destruct b as [|b]; cbn; [intros [= <-]; reflexivity|].
    destruct b; cbn; discriminate. }
  destruct (mk_backends [flaky KAssertion]) as [T| |] eqn:E; try (vm_compute in E; discriminate).
  specialize (H T [flaky KAssertion] None (OSave (Some (1, 1)) 1)).
  vm_compute in E. injection E as <-.
  specialize (H _ KAssertion O eq_refl). destruct H as [H _]. discriminate.
Qed.


Theorem faults_never_raise_partial T P mx o log k :
  ordinary_population P mx -> no_legacy_reraise P ->
  run_op T P mx o = (log, Raise k) -> k = KValidation /\ log = [].
Proof.
  intros [Ob Om] Hleg H. apply run_op_raise_shape in H. cbn in H.
  destruct H as [H|(w & m & a & Hin & Ha & Hex)]; [assumption|exfalso].
  assert (Hord : ordinary k = true).
  { destruct w as [b|]; [exact (Ob b m a k Ha)|]. cbn in Ha.
    destruct mx as [f|]; [exact (Om f m a k eq_refl Ha)|discriminate]. }
  destruct Hex as [->|[[b ->] [[-> ->]|[-> ->]]]]; [discriminate| |]; cbn in Ha.
  - destruct (Hleg b a) as [H1 _]. exact (H1 Ha).
  - destruct (Hleg b a) as [_ H2]. exact (H2 Ha).
Qed.


Example faults_partial_nonvacuous :
  ordinary_population [flaky KException; good1] None /\ no_legacy_reraise [flaky KException; good1] /\
  run [flaky KException; good1] None (OLookup [(1, 5); (2, 7)])
  = ([(Bk 0, MLookupMany, AUris [(1, 5)]); (Bk 1, MLookupMany, AUris [(2, 7)])],
     Ok (VMap [((1, 5), []); ((2, 7), [EObj CTrack 2001 true])])) /\
  snd (run [flaky KException; good1] None (OSearch SQGood None false)) = Ok (VList [EObj CSearch 2002 true]).
Proof.
  split; [|split; [|split; vm_compute; reflexivity]].
  - split; [|discriminate]. intros b m a k. unfold ans.
    destruct b as [|[|b]]; cbn; [intros [= <-]; reflexivity| |destruct b; discriminate].
    unfold script. destruct m; cbn; discriminate.
  - intros b a. unfold ans. destruct b as [|[|b]]; cbn; [split; discriminate|split; discriminate|].
    destruct b; cbn; split; discriminate.
Qed.

(* ------------------------------------------------------------------ run-level corollaries *)

Theorem run_lookup_noninterference j P P' mx us log m log' m' :
  differ_only_at j P P' ->
  run P mx (OLookup us) = (log, Ok (VMap m)) -> run P' mx (OLookup us) = (log', Ok (VMap m')) ->
  log = log' /\ keys m = keys m' /\
  forall u, ~ owns b_lib P j (u_scheme u) -> rget m u = rget m' u.
Proof.
  intros Hd H H'. unfold run in H, H'. rewrite <- (differ_same_tables j P P' Hd) in H'.
  destruct (mk_backends P) as [T|e|] eqn:ET; try discriminate. cbn in H, H'.
  destruct (lookup_noninterference j P P' T us log m log' m' Hd H H') as (Hl & Hk & Hv).
  split; [assumption|split; [assumption|]]. intros u Hno. apply Hv. intro Et. apply Hno.
  now apply (tget_owner_lib P T ET).
Qed.

Theorem run_images_noninterference j P P' mx us log m log' m' :
  differ_only_at j P P' ->
  run P mx (OImages us) = (log, Ok (VMap m)) -> run P' mx (OImages us) = (log', Ok (VMap m')) ->
  log = log' /\ keys m = keys m' /\
  forall u, ~ owns b_lib P j (u_scheme u) -> rget m u = rget m' u.
Proof.
  intros Hd H H'. unfold run in H, H'. rewrite <- (differ_same_tables j P P' Hd) in H'.
  destruct (mk_backends P) as [T|e|] eqn:ET; try discriminate. cbn in H, H'.
  destruct (images_noninterference j P P' T us log m log' m' Hd H H') as (Hl & Hk & Hv).
  split; [assumption|split; [assumption|]]. intros u Hno. apply Hv. intro Et. apply Hno.
  now apply (tget_owner_lib P T ET).
Qed.

(* start-up + request: what can be raised at all *)
Theorem run_raise_shape P mx o log k :
  run P mx o = (log, Raise k) ->
  (k = KAssertion /\ log = [] /\ ~ NoDup (live_schemes P)) \/
  (k = KValidation /\ log = []) \/
  exists w m a, In (w, m, a) log /\ answer_of P mx w m a = RRaise k /\ raise_excuse w m k.
Proof.
  unfold run. destruct (mk_backends P) as [T|e|] eqn:E.
  - intros H. apply run_op_raise_shape in H. cbn in H. tauto.
  - intros [= <- <-]. left. pose proof (mk_backends_only_assertion P e E) as ->.
    split; [reflexivity|split; [reflexivity|]]. intro Hn. apply mk_backends_ok_iff in Hn.
    destruct Hn as [T HT]. congruence.
  - discriminate.
Qed.

Theorem run_terminates P mx o log : run P mx o <> (log, Diverge).
Proof.
  unfold run. destruct (mk_backends P) as [T|e|] eqn:E.
  - intros H. apply run_op_raise_shape in H. exact H.
  - discriminate.
  - now apply mk_backends_terminates in E.
Qed.


(* a key nobody asked for appears in the result *)
Lemma lookup_old_foreign_key_refuted :
  exists P us log m u, run_old P None (OLookup us) = (log, Ok (VMap m)) /\ In u (keys m) /\ ~ In u us.
Proof.
  exists [lib [1] [(MLookupMany, RMap [((1, 1), MList [trk 1]); ((9, 9), MList [trk 2])])]], [(1, 1)].
  eexists. eexists. exists (9, 9). split; [vm_compute; reflexivity|].
  split; [cbn; auto|]. intros [H|[]]. discriminate.
Qed.


Lemma pAB_differ : differ_only_at 1 [pA; pB] [pA; pB'].
Proof.
  split.
  - repeat constructor.
  - intros [|[|i]] Hi; cbn; congruence.
Qed.

Lemma pAB_not_owner : ~ owns b_lib [pA; pB] 1 (u_scheme (1, 1)).
Proof. intros (b & Hn & _ & _ & Hs). cbn in Hn. injection Hn as <-. cbn in Hs. destruct Hs as [H|[]]. discriminate. Qed.

(* backend 1 changes the value of a URI owned by backend 0 *)
Lemma lookup_old_interference_refuted :
  exists j P P' us log m log' m' u,
    differ_only_at j P P' /\ run_old P None (OLookup us) = (log, Ok (VMap m)) /\
    run_old P' None (OLookup us) = (log', Ok (VMap m')) /\
    ~ owns b_lib P j (u_scheme u) /\ rget m u <> rget m' u.
Proof.
  exists 1%nat, [pA; pB], [pA; pB'], [(1, 1); (2, 1)]. eexists. eexists. eexists. eexists. exists (1, 1).
  split; [exact pAB_differ|]. split; [vm_compute; reflexivity|]. split; [vm_compute; reflexivity|].
  split; [exact pAB_not_owner|]. vm_compute. discriminate.
Qed.

Lemma images_old_interference_refuted :
  exists j P P' us log m log' m' u,
    differ_only_at j P P' /\ run_old P None (OImages us) = (log, Ok (VMap m)) /\
    run_old P' None (OImages us) = (log', Ok (VMap m')) /\
    ~ owns b_lib P j (u_scheme u) /\ rget m u <> rget m' u.
Proof.
  exists 1%nat, [pA; pB], [pA; pB'], [(1, 1); (2, 1)]. eexists. eexists. eexists. eexists. exists (1, 1).
  split; [exact pAB_differ|]. split; [vm_compute; reflexivity|]. split; [vm_compute; reflexivity|].
  split; [exact pAB_not_owner|]. vm_compute. discriminate.
Qed.

(* an answer that fails validation was nevertheless merged in part *)
Lemma lookup_old_partial_refuted :
  exists P T us log m u b,
    mk_backends P = Ok T /\ run_old P None (OLookup us) = (log, Ok (VMap m)) /\
    tget (t_lib T) (u_scheme u) = Some b /\
    acceptable CTrack (filter (own (t_lib T) b) us) (ans P b MLookupMany (AUris (filter (own (t_lib T) b) us))) = false /\
    rget m u <> Some [].
Proof.
  exists [lib [1] [(MLookupMany, RMap [((1, 1), MList [trk 1]); ((1, 2), MBad)])]].
  eexists. exists [(1, 1); (1, 2)]. eexists. eexists. exists (1, 1), 0%nat.
  split; [vm_compute; reflexivity|]. split; [vm_compute; reflexivity|].
  split; [vm_compute; reflexivity|]. split; [vm_compute; reflexivity|]. vm_compute. discriminate.
Qed.

(* the same populations under the fixed code: the theorems' hypotheses are satisfiable and
   the conclusions are the expected concrete values *)
Example lookup_fixed_on_witness :
  snd (run [pA; pB'] None (OLookup [(1, 1); (2, 1)])) = Ok (VMap [((1, 1), [trk 1]); ((2, 1), [])]) /\
  snd (run [pA; pB'] None (OImages [(1, 1); (2, 1)])) = Ok (VMap [((1, 1), [img 1]); ((2, 1), [])]) /\
  snd (run [pA; pB] None (OLookup [(1, 1); (2, 1); (9, 3)]))
  = Ok (VMap [((1, 1), [trk 1]); ((2, 1), [trk 2001]); ((9, 3), [])]).
Proof. repeat split; vm_compute; reflexivity. Qed.

Example duplicate_scheme_witness :
  mk_backends [pA; lib [2; 1] []] = Raise KAssertion /\ (exists T, mk_backends [pA; pB] = Ok T).
Proof. split; [vm_compute; reflexivity|eexists; vm_compute; reflexivity]. Qed.
