(* The property clauses that the code does not satisfy at full strength, stated in full with
   the recorded findings as the ONLY explicit exceptions of the statement (no side hypotheses
   excluding them): T5a (ordinary faults never raise) modulo search/LookupError and
   save/AssertionError; T5b for the single-URI requests modulo playlists.delete; the
   get_distinct provenance modulo dict answers. *)
From Coq Require Import ZArith List Bool Lia Arith.
From Common Require Import Res.
From Routing Require Import Model Scheme Obs Spec Proofs_Tables Proofs_Group Proofs_Merge Proofs_Library Proofs_Ops
     Proofs_Routing Proofs_Witness Proofs_Sets Proofs_Single.
Import ListNotations.
Open Scope Z_scope.

Theorem faults_never_raise_modulo_findings T P mx o log k :
  ordinary_population P mx -> run_op T P mx o = (log, Raise k) ->
  (k = KValidation /\ log = []) \/
  (exists q us e b a, o = OSearch q us e /\ k = KLookup /\
                      In (Bk b, MSearch, a) log /\ ans P b MSearch a = RRaise KLookup) \/
  (exists u n b, o = OSave (Some u) n /\ k = KAssertion /\
                 log = [(Bk b, PSave, APlaylist u n)] /\ ans P b PSave (APlaylist u n) = RRaise KAssertion).
Proof.
  intros [Ob Om] H. pose proof H as Hs. apply run_op_raise_shape in Hs. cbn in Hs.
  destruct Hs as [Hs|(w & m & a & Hin & Ha & Hex)]; [now left|right].
  assert (Hord : ordinary k = true).
  { destruct w as [b|]; [exact (Ob b m a k Ha)|]. cbn in Ha.
    destruct mx as [f|]; [exact (Om f m a k eq_refl Ha)|discriminate]. }
  destruct (log_methods T P mx o log _ H w m a Hin) as [Hm _].
  destruct Hex as [->|[[b ->] [[-> ->]|[-> ->]]]]; [discriminate| |]; cbn in Ha.
  - left. destruct o; cbn in Hm; try (exfalso; intuition discriminate). eauto 10.
  - right. destruct o; cbn in Hm; try (exfalso; intuition discriminate).
    cbn [run_op] in H. unfold save in H. destruct u as [u|]; [|injection H as <- _; contradiction].
    destruct (tget (t_playlists T) (u_scheme u)) as [b0|]; [|injection H as <- _; contradiction].
    injection H as <- _. destruct Hin as [[= -> <-]|[]]. exists u, n, b. auto.
Qed.

(* every request kind other than search and save: an ordinary fault never raises *)
Corollary faults_never_raise_other_requests T P mx o log k :
  ordinary_population P mx ->
  (forall q us e, o <> OSearch q us e) -> (forall u n, o <> OSave u n) ->
  run_op T P mx o = (log, Raise k) -> k = KValidation /\ log = [].
Proof.
  intros Ho Hs Hv H. destruct (faults_never_raise_modulo_findings T P mx o log k Ho H)
    as [?|[(q & us & e & _ & _ & E & _)|(u & n & b & E & _)]]; [assumption| |]; exfalso.
  - now apply (Hs q us e).
  - now apply (Hv (Some u) n).
Qed.

Theorem single_bad_answer_modulo_delete T P mx o u flag empty b m a :
  single_uri_op o = Some (u, flag, empty) -> single_call o = Some (m, a) ->
  bad_uri u = false \/ m = PLookup \/ m = PSave ->
  tget (table_for flag T o) (u_scheme u) = Some b ->
  ans P b m a <> RRaise KBase -> (m = PSave -> ans P b m a <> RRaise KAssertion) ->
  single_answer_ok o (ans P b m a) = false ->
  snd (run_op T P mx o) = Ok empty \/
  (is_delete o = true /\ (forall k, ans P b m a <> RRaise k) /\
   snd (run_op T P mx o) = Ok (delete_passthrough (ans P b m a))).
Proof.
  intros Ho Hc Hu Ht Hb Hs Hok. destruct (is_delete o) eqn:Ed.
  - destruct o; try discriminate. cbn in Ho, Hc. injection Ho as <- <- <-. injection Hc as <- <-.
    cbn in Ht. destruct Hu as [Hu|[Hu|Hu]]; try discriminate. cbn [run_op]. unfold delete. rewrite Hu, Ht. cbn [snd].
    cbn in Hok. destruct (ans P b PDelete (AUri u0)) as [k| | | | | | |] eqn:Ea; try discriminate;
      try (right; split; [reflexivity|split; [intros k0; discriminate|reflexivity]]).
    left. destruct k; try reflexivity. congruence.
  - left. eapply single_bad_answer_discarded_partial; eassumption.
Qed.

Theorem distinct_values_modulo_dict T P f q log l e :
  get_distinct T P f q = (log, Ok (VList l)) -> In e l ->
  (exists b es, ans P b MDistinct (ADistinct (field_compat f) q) = RList es /\ In e es) \/
  (exists b items u, ans P b MDistinct (ADistinct (field_compat f) q) = RMap items /\
                     field_cls f = CStr /\ e = EUriStr u /\ In u (map fst items)).
Proof.
  intros H He. destruct (distinct_decompose T P f q log l H) as [_ M].
  apply M in He. destruct He as (b & _ & He). unfold distinct_contrib in He.
  destruct (ans P b MDistinct (ADistinct (field_compat f) q)) as [k| | |items|es|c id|x|z] eqn:Ea; cbn in He; try contradiction.
  - right. destruct (forallb (entry_is (field_cls f)) (map (fun it => EUriStr (fst it)) items)) eqn:Ef; [|contradiction].
    apply in_map_iff in He. destruct He as (it & <- & Hit). exists b, items, (fst it).
    split; [exact Ea|]. split; [|split; [reflexivity|now apply in_map]].
    rewrite forallb_forall in Ef. specialize (Ef (EUriStr (fst it))). cbn in Ef.
    destruct (field_cls f); try reflexivity; exfalso;
      (assert (false = true) by (apply Ef; apply in_map_iff; exists it; auto)); discriminate.
  - left. exists b, es. split; [exact Ea|]. destruct (forallb (entry_is (field_cls f)) es); [assumption|contradiction].
Qed.
