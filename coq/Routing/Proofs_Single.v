(* Single-backend requests: bad answers are discarded (full statement refuted by playlists.delete,
   partial for the rest), what delete does with each answer, the get_distinct dict-keys leak
   (full statement refuted, partial without dict answers), and create's first-acceptable rule. *)
From Coq Require Import ZArith List Bool Lia Arith.
From Common Require Import Res.
From Routing Require Import Model Scheme Obs Spec Proofs_Tables Proofs_Group Proofs_Merge Proofs_Library Proofs_Ops
     Proofs_Routing Proofs_Witness Proofs_Sets.
Import ListNotations.
Open Scope Z_scope.

Lemma escapes_no_reraise_false k : k <> KBase -> escapes no_reraise k = false.
Proof. intros H. destruct k; cbn; unfold no_reraise; congruence. Qed.

Lemma escapes_assertion_false k : k <> KBase -> k <> KAssertion -> escapes assertion_reraise k = false.
Proof. intros H1 H2. destruct k; cbn; congruence. Qed.

(* the full statement fails for playlists.delete (known finding) *)
Lemma single_bad_answer_discarded_refuted : ~ single_bad_answer_discarded_full.
Proof.
  intros H.
  set (P := [lib [1] [(PDelete, RWrong)]]).
  set (t := [(1, 0%nat)]).
  specialize (H (mkT t t t t) P None (ODelete (1, 1)) (1, 1) b_playlists (VBool false) 0%nat PDelete (AUri (1, 1))
                eq_refl eq_refl (or_introl eq_refl) eq_refl).
  vm_compute in H. assert (X : Ok (E:=kind) VRaw = Ok (VBool false)); [|discriminate].
  apply H; [discriminate|discriminate|reflexivity].
Qed.

(* ... and holds for every other single-URI request *)
Theorem single_bad_answer_discarded_partial T P mx o u flag empty b m a :
  is_delete o = false ->
  single_uri_op o = Some (u, flag, empty) -> single_call o = Some (m, a) ->
  bad_uri u = false \/ m = PLookup \/ m = PSave ->
  tget (table_for flag T o) (u_scheme u) = Some b ->
  ans P b m a <> RRaise KBase -> (m = PSave -> ans P b m a <> RRaise KAssertion) ->
  single_answer_ok o (ans P b m a) = false ->
  snd (run_op T P mx o) = Ok empty.
Proof.
  intros Hd Ho Hc Hu Ht Hb Hs Hok.
  destruct o; try discriminate; cbn in Ho, Hc.
  - (* browse *) destruct a0; try discriminate. injection Ho as <- <- <-. injection Hc as <- <-.
    cbn in Ht. destruct Hu as [Hu|[Hu|Hu]]; try discriminate. cbn. unfold browse. rewrite Hu, Ht. cbn.
    cbn in Hok. destruct (ans P b MBrowse (AUri u0)) as [k| | | | | | |] eqn:Ea;
      try (destruct (as_instances CRef _); [discriminate|reflexivity]);
      try (unfold as_instances in Hok;
           match goal with |- context [if forallb ?p ?l then _ else _] => destruct (forallb p l) end;
           [discriminate|reflexivity]).
    rewrite escapes_no_reraise_false; [reflexivity|congruence].
  - (* get_items *) injection Ho as <- <- <-. injection Hc as <- <-.
    cbn in Ht. destruct Hu as [Hu|[Hu|Hu]]; try discriminate. cbn. unfold get_items. rewrite Hu, Ht. cbn.
    cbn in Hok. destruct (ans P b PGetItems (AUri u0)) as [k| | | | | | |] eqn:Ea; try discriminate;
      try (destruct (as_instances CRef _); [discriminate|reflexivity]);
      try (unfold as_instances in Hok;
           match goal with |- context [if forallb ?p ?l then _ else _] => destruct (forallb p l) end;
           [discriminate|reflexivity]).
    rewrite escapes_no_reraise_false; [reflexivity|congruence].
  - (* playlists.lookup *) injection Ho as <- <- <-. injection Hc as <- <-.
    cbn in Ht. cbn. unfold pl_lookup. rewrite Ht. cbn.
    cbn in Hok. destruct (ans P b PLookup (AUri u0)) as [k| | | | |c id| |] eqn:Ea; try discriminate; try reflexivity.
    + rewrite escapes_no_reraise_false; [reflexivity|congruence].
    + destruct c; try discriminate; reflexivity.
  - (* save *) destruct u0; try discriminate. injection Ho as <- <- <-. injection Hc as <- <-.
    cbn in Ht. cbn. unfold save. rewrite Ht. cbn.
    cbn in Hok. destruct (ans P b PSave (APlaylist u0 n)) as [k| | | | |c id| |] eqn:Ea; try discriminate; try reflexivity.
    + rewrite escapes_assertion_false; [reflexivity|congruence|]. intro E. subst k. now apply Hs.
    + destruct c; try discriminate; reflexivity.
Qed.

(* for delete: only exceptions are discarded; every other ill-typed answer is handed through *)
Theorem delete_answer_handling T P u b log out :
  bad_uri u = false -> tget (t_playlists T) (u_scheme u) = Some b -> delete T P u = (log, out) ->
  match ans P b PDelete (AUri u) with
  | RRaise k => if ordinary k then out = Ok (VBool false) else out = Raise k
  | RNone => out = Ok (VBool true)
  | RBool x => out = Ok (VBool x)
  | RInt z => out = Ok (VInt z)
  | _ => out = Ok VRaw
  end.
Proof.
  intros Hu Ht H. unfold delete in H. rewrite Hu, Ht in H. injection H as _ <-.
  destruct (ans P b PDelete (AUri u)) as [k| | | | | | |]; try reflexivity.
  destruct k; reflexivity.
Qed.

(* get_distinct: the dict-keys leak *)
Lemma distinct_values_listed_refuted : ~ distinct_values_listed_full.
Proof.
  intros H.
  set (P := [lib [1] [(MDistinct, RMap [((1, 1), MBad)])]]).
  set (t := [(1, 0%nat)]).
  destruct (H (mkT t t t t) P FStr None _ [EUriStr (1, 1)] (EUriStr (1, 1)) eq_refl (or_introl eq_refl)) as (b & es & Ha & _).
  unfold ans in Ha. destruct b as [|[|b]]; cbn in Ha; discriminate.
Qed.

Theorem distinct_values_listed_partial T P f q log l e :
  no_dict_answer P ->
  get_distinct T P f q = (log, Ok (VList l)) -> In e l ->
  exists b es, ans P b MDistinct (ADistinct (field_compat f) q) = RList es /\ In e es.
Proof.
  intros Hnd H He. destruct (distinct_decompose T P f q log l H) as [_ M].
  apply M in He. destruct He as (b & _ & He). exists b.
  unfold distinct_contrib in He.
  destruct (ans P b MDistinct (ADistinct (field_compat f) q)) as [k| | |items|es|c id|x|z] eqn:Ea; cbn in He; try contradiction.
  - destruct items as [|it items]; [cbn in He; contradiction|]. exfalso. exact (Hnd b _ it items Ea).
  - exists es. split; [reflexivity|]. destruct (forallb (entry_is (field_cls f)) es); [assumption|contradiction].
Qed.

(* create: the providers are asked in order; the first one answering with a Playlist wins,
   every earlier answer (raise, None, wrong type) is skipped *)
Theorem create_first_acceptable P n : forall bs log out,
  create_loop P n bs = (log, out) ->
  (forall b, In b bs -> ans P b PCreate (AName n) <> RRaise KBase) ->
  match out with
  | Ok (VVal CPlaylist id) =>
      exists pre b post, bs = pre ++ b :: post /\ create_accepts (ans P b PCreate (AName n)) = Some id /\
                         (forall b', In b' pre -> create_accepts (ans P b' PCreate (AName n)) = None) /\
                         log = map (fun b => (Bk b, PCreate, AName n)) (pre ++ [b])
  | Ok VNone =>
      (forall b, In b bs -> create_accepts (ans P b PCreate (AName n)) = None) /\
      log = map (fun b => (Bk b, PCreate, AName n)) bs
  | _ => False
  end.
Proof.
  induction bs as [|b r IH]; intros log out H Hnb; cbn in H.
  - injection H as <- <-. split; [intros b []|reflexivity].
  - destruct (create_loop P n r) as [log' out'] eqn:E.
    assert (Hnb' : forall b0, In b0 r -> ans P b0 PCreate (AName n) <> RRaise KBase) by (intros b0 Hb0; apply Hnb; now right).
    specialize (IH log' out' eq_refl Hnb').
    assert (Hskip : create_accepts (ans P b PCreate (AName n)) = None ->
                    (log, out) = ((Bk b, PCreate, AName n) :: log', out') ->
                    match out with
                    | Ok (VVal CPlaylist id) =>
                        exists pre b0 post, b :: r = pre ++ b0 :: post /\ create_accepts (ans P b0 PCreate (AName n)) = Some id /\
                          (forall b', In b' pre -> create_accepts (ans P b' PCreate (AName n)) = None) /\
                          log = map (fun b1 => (Bk b1, PCreate, AName n)) (pre ++ [b0])
                    | Ok VNone => (forall b0, In b0 (b :: r) -> create_accepts (ans P b0 PCreate (AName n)) = None) /\
                                  log = map (fun b1 => (Bk b1, PCreate, AName n)) (b :: r)
                    | _ => False
                    end).
    { intros Hnone [= -> ->]. destruct out' as [v| |]; [|exact IH|exact IH].
      destruct v as [| | |c id| | | |]; try exact IH.
      - destruct IH as [Hall Hlog]. split; [intros b0 [<-|Hb0]; auto|]. cbn. now rewrite Hlog.
      - destruct c; try exact IH. destruct IH as (pre & b0 & post & -> & Hacc & Hpre & Hlog).
        exists (b :: pre), b0, post. split; [reflexivity|]. split; [assumption|].
        split; [intros b' [<-|Hb']; auto|]. cbn. now rewrite Hlog. }
    destruct (ans P b PCreate (AName n)) as [k| | | | |c id| |] eqn:Ea; try (apply Hskip; [reflexivity|now rewrite H]).
    + destruct (escapes no_reraise k) eqn:Ee.
      * apply escapes_no_reraise in Ee. subst k. exfalso. apply (Hnb b); [now left|assumption].
      * apply Hskip; [reflexivity|now rewrite H].
    + destruct c; try (apply Hskip; [reflexivity|now rewrite H]).
      injection H as <- <-. exists [], b, r. cbn. rewrite Ea. cbn. repeat split; auto. intros b' [].
Qed.
