(* Non-vacuity: the hypotheses of the implications in Property_C09.v are satisfiable by concrete,
   non-trivial populations, and the conclusions are the expected concrete facts. *)
From Coq Require Import ZArith List Bool Lia Arith.
From Common Require Import Res.
From Routing Require Import Model Scheme Obs Spec Proofs_Tables Proofs_Group Proofs_Merge Proofs_Library Proofs_Ops
     Proofs_Routing Proofs_Witness.
Import ListNotations.
Open Scope Z_scope.

(* T4: two populations differing only in backend 1 (which in P' also answers for backend 0's
   URI and for an unrequested one): same calls, backend 0's URI unchanged, backend 1's own
   URI does change (its whole answer is now unacceptable) *)
Example noninterference_nonvacuous :
  differ_only_at 1 [pA; pB] [pA; pB'] /\
  run [pA; pB] None (OLookup [(1, 1); (2, 1)])
  = ([(Bk 0, MLookupMany, AUris [(1, 1)]); (Bk 1, MLookupMany, AUris [(2, 1)])],
     Ok (VMap [((1, 1), [trk 1]); ((2, 1), [trk 2001])])) /\
  run [pA; pB'] None (OLookup [(1, 1); (2, 1)])
  = ([(Bk 0, MLookupMany, AUris [(1, 1)]); (Bk 1, MLookupMany, AUris [(2, 1)])],
     Ok (VMap [((1, 1), [trk 1]); ((2, 1), [])])) /\
  ~ owns b_lib [pA; pB] 1 (u_scheme (1, 1)) /\ owns b_lib [pA; pB] 1 (u_scheme (2, 1)).
Proof.
  split; [exact pAB_differ|]. split; [vm_compute; reflexivity|]. split; [vm_compute; reflexivity|].
  split; [exact pAB_not_owner|]. exists pB. cbn. repeat split; auto.
Qed.

(* T2/T3/T5 on one request: three backends (one without library provider, one raising), URIs
   of all of them, an unknown scheme and a duplicate *)

Example routing_nonvacuous :
  run [pA; pC; pD; pB] None (OLookup [(2, 1); (3, 1); (1, 1); (4, 1); (9, 9); (2, 1)])
  = ([(Bk 3, MLookupMany, AUris [(2, 1); (2, 1)]); (Bk 0, MLookupMany, AUris [(1, 1)]);
      (Bk 2, MLookupMany, AUris [(4, 1)])],
     Ok (VMap [((2, 1), [trk 2001]); ((3, 1), []); ((1, 1), [trk 1]); ((4, 1), []); ((9, 9), [])])).
Proof. vm_compute. reflexivity. Qed.

(* T5b for single-URI requests and T6: wrong-typed answers *)

Example bad_answers_nonvacuous :
  snd (run [pW] None (OBrowse (BUri (5, 1)))) = Ok (VList []) /\
  snd (run [pW] None (OGetItems (5, 1))) = Ok VNone /\
  snd (run [pW] None (OPlLookup (5, 1))) = Ok VNone /\
  snd (run [pW] None (OSave (Some (5, 1)) 1)) = Ok VNone /\
  snd (run [pW] None (ODelete (5, 1))) = Ok VRaw /\
  snd (run [] (Some mxW) OGetVolume) = Ok VNone /\
  snd (run [] (Some mxW) (OSetVolume 5)) = Ok (VBool false) /\
  snd (run [] (Some mxW) OGetMute) = Ok VNone /\
  snd (run [] (Some mxW) (OSetMute true)) = Ok (VBool false) /\
  not_base (mxW XGetVolume AUnit) /\ volume_answer_ok (mxW XGetVolume AUnit) = false.
Proof. repeat split; try (vm_compute; reflexivity). vm_compute. discriminate. Qed.

(* aggregates: three providers, one raising TypeError (swallowed), one answering None *)
Example aggregates_nonvacuous :
  run [lib [1] [(MSearch, RVal CSearch 1)]; lib [2] [(MSearch, RRaise KType)]; lib [3; 6] [(MSearch, RVal CSearch 3)]]
      None (OSearch SQStr None true)
  = ([(Bk 0, MSearch, ASearch SQGood None true); (Bk 1, MSearch, ASearch SQGood None true);
      (Bk 2, MSearch, ASearch SQGood None true)],
     Ok (VList [EObj CSearch 1 true; EObj CSearch 3 true])) /\
  snd (run [lib [1; 2] [(MRoot, RVal CRef 1)]; lib [3] [(MRoot, RVal CTrack 2)]; lib [4] [(MRoot, RVal CRef 1)]]
           None (OBrowse BNone)) = Ok (VList [EObj CRef 1 true]).
Proof. split; vm_compute; reflexivity. Qed.
