(* Routing of every request kind (T2), unknown schemes for the single-backend requests (T3),
   the aggregate requests as unions of per-backend contributions (T4/T5b), the mixer (T6). *)
From Coq Require Import ZArith List Bool Lia Arith.
From Common Require Import Res.
From Routing Require Import Model Scheme Obs Spec Proofs_Tables Proofs_Group Proofs_Merge Proofs_Library Proofs_Ops.
Import ListNotations.
Open Scope Z_scope.



Section WithTables.
  Variable P : list backend.
  Variable T : tables.
  Hypothesis HT : mk_backends P = Ok T.

  Lemma tables_eq : t_lib T = spec_table b_lib 0 P /\ t_browse T = spec_table b_browse 0 P /\
                    t_playback T = spec_table b_playback 0 P /\ t_playlists T = spec_table b_playlists 0 P.
  Proof. now apply mk_backends_tables. Qed.

  Lemma tvalues_lib b : In b (tvalues (t_lib T)) <-> exists s, owns b_lib P b s.
  Proof. destruct tables_eq as (-> & _). apply tvalues_spec. Qed.
  Lemma tvalues_browse b : In b (tvalues (t_browse T)) <-> exists s, owns b_browse P b s.
  Proof. destruct tables_eq as (_ & -> & _). apply tvalues_spec. Qed.
  Lemma tvalues_playlists b : In b (tvalues (t_playlists T)) <-> exists s, owns b_playlists P b s.
  Proof. destruct tables_eq as (_ & _ & _ & ->). apply tvalues_spec. Qed.

  Lemma nodup_live : NoDup (live_schemes P).
  Proof. apply mk_backends_ok_iff. eauto. Qed.

  Lemma owns_table_tget flag t b s :
    t = spec_table flag 0 P -> Model.owns t b s = true -> owns flag P b s.
  Proof.
    intros -> H. unfold Model.owns in H. apply existsb_exists in H. destruct H as ([s' b'] & Hin & E).
    cbn in E. apply andb_true_iff in E. destruct E as [E1 E2]. apply Z.eqb_eq in E1. apply Nat.eqb_eq in E2.
    subst. apply spec_table_In in Hin. destruct Hin as (j & bk & -> & H). exists bk. exact H.
  Qed.

  Lemma group_call_sound us b l :
    In (b, l) (group (t_lib T) us) ->
    (exists s, owns b_lib P b s) /\ forall u, In u l -> owns b_lib P b (u_scheme u).
  Proof.
    intros Hg. assert (Hall : forall u, In u l -> owns b_lib P b (u_scheme u)).
    { intros u Hu. apply (in_group_list _ _ _ _ u Hg) in Hu. apply (tget_owner_lib P T HT). tauto. }
    split; [|assumption]. apply group_spec in Hg. destruct Hg as [_ Hne].
    destruct l as [|u r]; [congruence|]. exists (u_scheme u). apply Hall. now left.
  Qed.

  Lemma create_loop_log n : forall bs log out c,
    create_loop P n bs = (log, out) -> In c log -> exists b, In b bs /\ c = (Bk b, PCreate, AName n).
  Proof.
    induction bs as [|b r IH]; intros log out c H Hc; cbn in H.
    - injection H as <- <-. contradiction.
    - destruct (create_loop P n r) as [log' out'] eqn:E.
      assert (Hrec : In c ((Bk b, PCreate, AName n) :: log') -> exists b0, In b0 (b :: r) /\ c = (Bk b0, PCreate, AName n)).
      { intros [<-|Hin]; [exists b; split; [now left|reflexivity]|].
        destruct (IH log' out' c eq_refl Hin) as (b0 & Hb0 & ->). exists b0. split; [now right|reflexivity]. }
      assert (Hone : In c [(Bk b, PCreate, AName n)] -> exists b0, In b0 (b :: r) /\ c = (Bk b0, PCreate, AName n)).
      { intros [<-|[]]. exists b. split; [now left|reflexivity]. }
      destruct (ans P b PCreate (AName n)) as [k| | | | |c0 id| |]; try (injection H as <- <-; auto).
      + destruct (escapes no_reraise k); injection H as <- <-; auto.
      + destruct c0; injection H as <- <-; auto.
  Qed.

  (* T2 for every request: a provider method is only ever invoked on a backend that offers
     that provider, and every URI it is handed has a scheme registered by that backend *)
  Theorem routing_sound mx o log out :
    run_op T P mx o = (log, out) ->
    forall b m a, In (Bk b, m, a) log ->
      (exists s, owns (flag_of m) P b s) /\ forall u, In u (arg_uris a) -> owns (flag_of m) P b (u_scheme u).
  Proof.
    intros H b m a Hin. destruct o; cbn [run_op] in H.
    - injection H as <- <-. contradiction.
    - destruct (lookup_routing P T us log out HT H) as [(_ & -> & _)|[_ (Hs & _)]]; [contradiction|].
      destruct (Hs _ _ _ Hin) as (b' & [= <-] & -> & -> & Hne & Hall). cbn.
      split; [|intros u Hu; now apply Hall].
      destruct (filter (own (t_lib T) b) us) as [|u r] eqn:E; [congruence|].
      exists (u_scheme u). apply (Hall u). now left.
    - destruct (images_routing P T us log out HT H) as [(_ & -> & _)|[_ (Hs & _)]]; [contradiction|].
      destruct (Hs _ _ _ Hin) as (b' & [= <-] & -> & -> & Hne & Hall). cbn.
      split; [|intros u Hu; now apply Hall].
      destruct (filter (own (t_lib T) b) us) as [|u r] eqn:E; [congruence|].
      exists (u_scheme u). apply (Hall u). now left.
    - unfold search in H.
      destruct (match us with Some l => existsb bad_uri l | None => false end); [injection H as <- <-; contradiction|].
      destruct (negb (sq_valid (sq_normalize q))); [injection H as <- <-; contradiction|].
      assert (G : In (Bk b, m, a) (map (fun g => (Bk (fst g), MSearch, ASearch (sq_normalize q) (snd g) exact))
                                       (backends_to_uris (t_lib T) us)) ->
                  (exists s, owns (flag_of m) P b s) /\ forall u, In u (arg_uris a) -> owns (flag_of m) P b (u_scheme u)).
      { clear H Hin. intros Hin. apply in_map_iff in Hin. destruct Hin as ([b' o] & [= <- <- <-] & Hg). cbn.
        unfold backends_to_uris in Hg.
        assert (Hall : In (b', o) (map (fun b0 => (b0, None)) (dedup (tvalues (t_lib T)))) ->
                       (exists s, owns b_lib P b' s) /\ forall u, In u (match o with Some l => l | None => [] end) ->
                                                                  owns b_lib P b' (u_scheme u)).
        { intros Hm. apply in_map_iff in Hm. destruct Hm as (b0 & [= <- <-] & Hb0).
          split; [apply tvalues_lib; now apply In_dedup|intros u []]. }
        destruct us as [[|u0 r]|]; try (now apply Hall).
        apply in_map_iff in Hg. destruct Hg as ([b0 l] & [= <- <-] & Hg). cbn. now apply (group_call_sound (u0 :: r)). }
      destruct (sq_normalize q); try (injection H as <- <-; now apply G); injection H as <- <-; contradiction.
    - unfold browse in H. destruct a0 as [| |u].
      + injection H as <- <-. apply in_map_iff in Hin. destruct Hin as (b0 & [= <- <- <-] & Hb0).
        split; [now apply tvalues_browse|intros u []].
      + injection H as <- <-. contradiction.
      + destruct (bad_uri u); [injection H as <- <-; contradiction|].
        destruct (tget (t_browse T) (u_scheme u)) as [b0|] eqn:Et; [|injection H as <- <-; contradiction].
        injection H as <- <-. destruct Hin as [[= <- <- <-]|[]]. cbn.
        apply (tget_owner_browse P T HT) in Et. split; [eauto|intros u' [<-|[]]; assumption].
    - unfold get_distinct in H.
      destruct (negb (field_valid f)); [injection H as <- <-; contradiction|].
      destruct (negb (dq_valid q)); [injection H as <- <-; contradiction|].
      injection H as <- <-. apply in_map_iff in Hin. destruct Hin as (b0 & [= <- <- <-] & Hb0).
      split; [now apply tvalues_lib|intros u' []].
    - unfold refresh in H.
      destruct (match u with Some x => bad_uri x | None => false end); [injection H as <- <-; contradiction|].
      injection H as <- <-. apply in_map_iff in Hin. destruct Hin as (b0 & [= <- <- <-] & Hb0).
      unfold refresh_targets in Hb0. apply filter_In in Hb0. destruct Hb0 as [Hd Hf]. cbn.
      split; [apply tvalues_lib; now apply In_dedup|].
      destruct u as [u|]; [|intros u' []]. intros u' [<-|[]]. cbn in Hf.
      destruct tables_eq as (E & _). now apply (owns_table_tget b_lib _ _ _ E).
    - injection H as <- <-. contradiction.
    - unfold as_list in H. injection H as <- <-. apply in_map_iff in Hin. destruct Hin as (b0 & [= <- <- <-] & Hb0).
      split; [apply tvalues_playlists; now apply In_dedup|intros u' []].
    - unfold get_items in H. destruct (bad_uri u); [injection H as <- <-; contradiction|].
      destruct (tget (t_playlists T) (u_scheme u)) as [b0|] eqn:Et; [|injection H as <- <-; contradiction].
      injection H as <- <-. destruct Hin as [[= <- <- <-]|[]]. cbn.
      apply (tget_owner_playlists P T HT) in Et. split; [eauto|intros u' [<-|[]]; assumption].
    - unfold pl_lookup in H.
      destruct (tget (t_playlists T) (u_scheme u)) as [b0|] eqn:Et; [|injection H as <- <-; contradiction].
      injection H as <- <-. destruct Hin as [[= <- <- <-]|[]]. cbn.
      apply (tget_owner_playlists P T HT) in Et. split; [eauto|intros u' [<-|[]]; assumption].
    - unfold create in H.
      destruct (match s with Some s0 => tget (t_playlists T) s0 | None => None end) as [b0|] eqn:Et.
      + destruct (create_loop_log n _ _ _ _ H Hin) as (b1 & Hb1 & [= -> -> ->]). cbn.
        destruct Hb1 as [<-|[]].
        destruct s as [s|]; [|discriminate]. apply (tget_owner_playlists P T HT) in Et.
        split; [eauto|intros u' []].
      + destruct (create_loop_log n _ _ _ _ H Hin) as (b1 & Hb1 & [= -> -> ->]). cbn.
        split; [now apply tvalues_playlists|intros u' []].
    - unfold save in H. destruct u as [u|]; [|injection H as <- <-; contradiction].
      destruct (tget (t_playlists T) (u_scheme u)) as [b0|] eqn:Et; [|injection H as <- <-; contradiction].
      injection H as <- <-. destruct Hin as [[= <- <- <-]|[]]. cbn.
      apply (tget_owner_playlists P T HT) in Et. split; [eauto|intros u' [<-|[]]; assumption].
    - unfold delete in H. destruct (bad_uri u); [injection H as <- <-; contradiction|].
      destruct (tget (t_playlists T) (u_scheme u)) as [b0|] eqn:Et; [|injection H as <- <-; contradiction].
      injection H as <- <-. destruct Hin as [[= <- <- <-]|[]]. cbn.
      apply (tget_owner_playlists P T HT) in Et. split; [eauto|intros u' [<-|[]]; assumption].
    - unfold pl_refresh in H. injection H as <- <-. apply in_map_iff in Hin.
      destruct Hin as (b0 & [= <- <- <-] & Hb0). unfold refresh_targets in Hb0. apply filter_In in Hb0.
      split; [apply tvalues_playlists; apply In_dedup; tauto|intros u' []].
    - unfold get_volume in H. destruct mx; injection H as <- <-; [destruct Hin as [[=]|[]]|contradiction].
    - unfold set_volume in H. destruct (negb ((0 <=? v) && (v <=? 100))); [injection H as <- <-; contradiction|].
      destruct mx; injection H as <- <-; [destruct Hin as [[=]|[]]|contradiction].
    - unfold get_mute in H. destruct mx; injection H as <- <-; [destruct Hin as [[=]|[]]|contradiction].
    - unfold set_mute in H. destruct mx; injection H as <- <-; [destruct Hin as [[=]|[]]|contradiction].
    - injection H as <- <-. contradiction.
  Qed.


  Theorem single_unknown_empty mx o u flag empty :
    single_uri_op o = Some (u, flag, empty) ->
    (forall b, ~ owns flag P b (u_scheme u)) ->
    run_op T P mx o = ([], Ok empty) \/ run_op T P mx o = ([], Raise KValidation).
  Proof.
    intros Ho Hno.
    assert (Hb : flag = b_browse -> tget (t_browse T) (u_scheme u) = None).
    { intros ->. destruct (tget (t_browse T) (u_scheme u)) as [b|] eqn:E; [|reflexivity].
      exfalso. apply (Hno b). now apply (tget_owner_browse P T HT). }
    assert (Hp : flag = b_playlists -> tget (t_playlists T) (u_scheme u) = None).
    { intros ->. destruct (tget (t_playlists T) (u_scheme u)) as [b|] eqn:E; [|reflexivity].
      exfalso. apply (Hno b). now apply (tget_owner_playlists P T HT). }
    destruct o; try discriminate; cbn in Ho.
    - destruct a; try discriminate. injection Ho as <- <- <-. cbn. unfold browse.
      destruct (bad_uri u0); [now right|]. rewrite Hb by reflexivity. now left.
    - injection Ho as <- <- <-. cbn. unfold get_items. destruct (bad_uri u0); [now right|].
      rewrite Hp by reflexivity. now left.
    - injection Ho as <- <- <-. cbn. unfold pl_lookup. rewrite Hp by reflexivity. now left.
    - destruct u0; try discriminate. injection Ho as <- <- <-. cbn. unfold save. rewrite Hp by reflexivity. now left.
    - injection Ho as <- <- <-. cbn. unfold delete. destruct (bad_uri u0); [now right|].
      rewrite Hp by reflexivity. now left.
  Qed.
End WithTables.


(* "every library backend when no URI restricts the request": every backend offering the
   provider (with at least one registered scheme) is asked *)
Theorem unrestricted_all_providers P T mx o m flag log out :
  mk_backends P = Ok T -> unrestricted_op o = Some (m, flag) -> run_op T P mx o = (log, out) ->
  forall b, (exists s, owns flag P b s) -> exists a, In (Bk b, m, a) log.
Proof.
  intros HT Ho H b Hb.
  assert (Hd : forall t, In b (tvalues t) -> In b (dedup (tvalues t))) by (intros t; apply In_dedup).
  destruct o; try discriminate; cbn in Ho; cbn [run_op] in H.
  - (* search *) unfold search in H.
    destruct us as [[|u r]|]; try discriminate; cbn in Ho;
      destruct (sq_normalize q) eqn:Eq; try discriminate; injection Ho as <- <-; cbn in H; injection H as <- _;
      apply (tvalues_lib P T HT) in Hb; apply Hd in Hb; eexists; apply in_map_iff; exists (b, None);
      (split; [reflexivity|]); apply in_map_iff; exists b; auto.
  - (* browse roots *) destruct a; try discriminate. injection Ho as <- <-. unfold browse in H. injection H as <- _.
    apply (tvalues_browse P T HT) in Hb. exists AUnit. apply in_map_iff. exists b. auto.
  - (* get_distinct *) destruct (field_valid f) eqn:Ef; [|discriminate]. destruct (dq_valid q) eqn:Eq; [|discriminate].
    injection Ho as <- <-. unfold get_distinct in H. rewrite Ef, Eq in H. cbn in H. injection H as <- _.
    apply (tvalues_lib P T HT) in Hb. eexists. apply in_map_iff. exists b. auto.
  - (* refresh *) destruct u; try discriminate. injection Ho as <- <-. unfold refresh in H. cbn in H. injection H as <- _.
    apply (tvalues_lib P T HT) in Hb. apply Hd in Hb. eexists. apply in_map_iff. exists b. split; [reflexivity|].
    unfold refresh_targets. apply filter_In. auto.
  - (* as_list *) injection Ho as <- <-. unfold as_list in H. injection H as <- _.
    apply (tvalues_playlists P T HT) in Hb. apply Hd in Hb. eexists. apply in_map_iff. exists b. auto.
  - (* playlists.refresh *) destruct s; try discriminate. injection Ho as <- <-. unfold pl_refresh in H. injection H as <- _.
    apply (tvalues_playlists P T HT) in Hb. apply Hd in Hb. eexists. apply in_map_iff. exists b. split; [reflexivity|].
    unfold refresh_targets. apply filter_In. auto.
Qed.

(* which methods a request kind invokes, and on whom (mixer methods on the mixer only) *)
Theorem log_methods T P mx o log out :
  run_op T P mx o = (log, out) ->
  forall w m a, In (w, m, a) log -> In m (op_meths o) /\ (w = Mx <-> is_mixer_meth m = true).
Proof.
  intros H w m a Hin.
  assert (Hb : forall b : nat, (Bk b = Mx <-> false = true)) by (intros b; split; discriminate).
  assert (Hm : (Mx = Mx <-> true = true)) by tauto.
  destruct o; cbn [run_op] in H.
  12: { (* create *) unfold create in H.
        destruct (match s with Some s0 => tget (t_playlists T) s0 | None => None end);
          destruct (create_loop_log P n _ _ _ _ H Hin) as (b1 & _ & [= -> -> ->]); cbn; auto. }
  all: unfold lookup, get_images, merge_request, search, browse, get_distinct, refresh, get_uri_schemes, as_list,
       get_items, pl_lookup, save, delete, pl_refresh, get_volume, set_volume, get_mute, set_mute in H; cbv zeta in H.
  all: repeat match type of H with
              | (if ?c then _ else _) = _ => destruct c
              | match ?x with _ => _ end = _ => destruct x
              end.
  all: injection H as <- _.
  all: try contradiction.
  all: try (destruct Hin as [[= <- <- <-]|[]]; cbn; auto).
  all: try (apply in_map_iff in Hin; destruct Hin as (x & [= <- <- <-] & _); cbn; auto).
Qed.

Lemma search_fold P q e : forall gs acc l,
  fold_res (search_step P q e) gs acc = Ok l ->
  l = acc ++ flat_map (fun g => search_contrib (ans P (fst g) MSearch (ASearch q (snd g) e))) gs.
Proof.
  induction gs as [|g r IH]; intros acc l H; cbn in H.
  - injection H as <-. cbn. now rewrite app_nil_r.
  - destruct (search_step P q e acc g) as [acc'|k|] eqn:E; try discriminate.
    apply IH in H. subst l. cbn. unfold search_step in E.
    destruct (ans P (fst g) MSearch (ASearch q (snd g) e)) as [k| | | | |c id| |]; cbn;
      try (injection E as <-; reflexivity).
    + destruct (search_escapes k); [discriminate|injection E as <-; reflexivity].
    + destruct c; injection E as <-; cbn; try reflexivity. now rewrite <- app_assoc.
Qed.

(* search returns exactly the SearchResults of the providers it asked, one per acceptable
   answer, in the order they were asked; every other answer contributes nothing *)
Theorem search_decomposes T P q us e log l :
  search T P q us e = (log, Ok (VList l)) ->
  l = [] \/
  l = flat_map (fun g => search_contrib (ans P (fst g) MSearch (ASearch (sq_normalize q) (snd g) e)))
               (backends_to_uris (t_lib T) us).
Proof.
  unfold search. destruct (match us with Some l0 => existsb bad_uri l0 | None => false end); [discriminate|].
  destruct (negb (sq_valid (sq_normalize q))); [discriminate|].
  intros H. destruct (sq_normalize q) eqn:Eq.
  1: { injection H as _ <-. now left. }
  all: right; injection H as _ H;
    match type of H with
    | rmap_res VList ?F = _ => destruct F as [x|k|] eqn:E; cbn in H; try discriminate
    end; injection H as <-; now apply search_fold in E.
Qed.


Lemma as_list_fold P : forall bs acc l,
  fold_res (as_list_step P) bs acc = Ok l ->
  l = acc ++ flat_map (fun b => as_list_contrib (ans P b PAsList AUnit)) bs.
Proof.
  induction bs as [|b r IH]; intros acc l H; cbn in H.
  - injection H as <-. cbn. now rewrite app_nil_r.
  - destruct (as_list_step P acc b) as [acc'|k|] eqn:E; try discriminate.
    apply IH in H. subst l. cbn. unfold as_list_step in E. unfold as_list_contrib.
    destruct (ans P b PAsList AUnit) as [k| | |items|l0|c id|x|z];
      try (injection E as <-; reflexivity).
    + destruct (ordinary k); [injection E as <-; reflexivity|discriminate].
    + destruct (as_instances CRef (RMap items)); injection E as <-; [now rewrite <- app_assoc|reflexivity].
    + destruct (as_instances CRef (RList l0)); injection E as <-; [now rewrite <- app_assoc|reflexivity].
Qed.

Theorem as_list_decomposes T P log l :
  as_list T P = (log, Ok (VList l)) ->
  l = flat_map (fun b => as_list_contrib (ans P b PAsList AUnit)) (dedup (tvalues (t_playlists T))).
Proof.
  unfold as_list. intros H. injection H as _ H.
  match type of H with
  | rmap_res VList ?F = _ => destruct F as [x|k|] eqn:E; cbn in H; try discriminate
  end. injection H as <-. now apply as_list_fold in E.
Qed.


Theorem mixer_bad_read_unknown f :
  (not_base (f XGetVolume AUnit) -> volume_answer_ok (f XGetVolume AUnit) = false ->
   snd (get_volume (Some f)) = Ok VNone) /\
  (not_base (f XGetMute AUnit) -> mute_answer_ok (f XGetMute AUnit) = false ->
   snd (get_mute (Some f)) = Ok VNone).
Proof.
  unfold not_base. split; intros Hb H; cbn.
  - destruct (f XGetVolume AUnit) as [k| | | | | | |z]; cbn in *; try discriminate; try reflexivity.
    + destruct k; cbn; try reflexivity. congruence.
    + now rewrite H.
  - destruct (f XGetMute AUnit) as [k| | | | | | |z]; cbn in *; try discriminate; try reflexivity.
    destruct k; cbn; try reflexivity. congruence.
Qed.

Theorem mixer_bad_write_false f v m :
  (not_base (f XSetVolume (AInt v)) -> write_answer_ok (f XSetVolume (AInt v)) = false ->
   0 <= v <= 100 -> snd (set_volume (Some f) v) = Ok (VBool false)) /\
  (not_base (f XSetMute (ABool m)) -> write_answer_ok (f XSetMute (ABool m)) = false ->
   snd (set_mute (Some f) m) = Ok (VBool false)).
Proof.
  unfold not_base. split.
  - intros Hb H Hv. unfold set_volume.
    assert (E : negb ((0 <=? v) && (v <=? 100)) = false) by (apply negb_false_iff; apply andb_true_iff; split; lia).
    rewrite E. cbn. destruct (f XSetVolume (AInt v)) as [k| | | | | | |z]; cbn in *; try discriminate; try reflexivity.
    destruct k; cbn; try reflexivity. congruence.
  - intros Hb H. cbn. destruct (f XSetMute (ABool m)) as [k| | | | | | |z]; cbn in *; try discriminate; try reflexivity.
    destruct k; cbn; try reflexivity. congruence.
Qed.

(* whatever the mixer does, a read returns None or a value of the documented type/range, a
   write returns a bool; without a mixer reads are unknown and writes fail *)
Theorem mixer_results_typed mx v m :
  (forall x, snd (get_volume mx) = Ok x -> x = VNone \/ (exists z, x = VInt z /\ 0 <= z <= 100) \/ exists b, x = VBool b) /\
  (forall x, snd (get_mute mx) = Ok x -> x = VNone \/ exists b, x = VBool b) /\
  (forall x, snd (set_volume mx v) = Ok x -> exists b, x = VBool b) /\
  (forall x, snd (set_mute mx m) = Ok x -> exists b, x = VBool b) /\
  (mx = None -> snd (get_volume mx) = Ok VNone /\ snd (get_mute mx) = Ok VNone /\
                snd (set_mute mx m) = Ok (VBool false) /\
                (0 <= v <= 100 -> snd (set_volume mx v) = Ok (VBool false))).
Proof.
  split; [|split; [|split; [|split]]].
  - intros x. unfold get_volume. destruct mx as [f|]; cbn; [|intros [= <-]; now left].
    destruct (f XGetVolume AUnit) as [k| | | | | |b|z]; try (intros [= <-]; now left).
    + destruct (ordinary k); [intros [= <-]; now left|discriminate].
    + intros [= <-]. right. right. eauto.
    + destruct ((0 <=? z) && (z <=? 100)) eqn:E; intros [= <-]; [|now left].
      right. left. exists z. split; [reflexivity|]. apply andb_true_iff in E. lia.
  - intros x. unfold get_mute. destruct mx as [f|]; cbn; [|intros [= <-]; now left].
    destruct (f XGetMute AUnit) as [k| | | | | |b|z]; try (intros [= <-]; now left).
    + destruct (ordinary k); [intros [= <-]; now left|discriminate].
    + intros [= <-]. right. eauto.
  - intros x. unfold set_volume. destruct (negb ((0 <=? v) && (v <=? 100))); [discriminate|].
    destruct mx as [f|]; cbn; [|intros [= <-]; eauto].
    destruct (f XSetVolume (AInt v)) as [k| | | | | |b|z]; try (intros [= <-]; eauto).
    destruct (ordinary k); [intros [= <-]; eauto|discriminate].
  - intros x. unfold set_mute. destruct mx as [f|]; cbn; [|intros [= <-]; eauto].
    destruct (f XSetMute (ABool m)) as [k| | | | | |b|z]; try (intros [= <-]; eauto).
    destruct (ordinary k); [intros [= <-]; eauto|discriminate].
  - intros ->. repeat split. intros Hv. unfold set_volume.
    assert (E : negb ((0 <=? v) && (v <=? 100)) = false) by (apply negb_false_iff; apply andb_true_iff; split; lia).
    now rewrite E.
Qed.
