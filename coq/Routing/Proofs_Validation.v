(* Soundness and completeness of the validation layer against declarative type predicates. *)
From Coq Require Import ZArith List Bool Lia.
From Common Require Import Res Str.
From Routing Require Import Model Scheme Validation Proofs_Tables Proofs_Sets.
Import ListNotations.
Open Scope Z_scope.

(* ---- reflection lemmas *)

Lemma isinstance_spec t v : isinstance t v = true <-> has_class t v.
Proof.
  destruct t, v; cbn; split; intros H; try discriminate; eauto;
    try (destruct H as [x H]; discriminate); try (destruct H as [[x H]|[x H]]; discriminate).
  - apply cls_eqb_eq in H. subst. eauto.
  - destruct H as [x [= -> ->]]. now apply cls_eqb_eq.
Qed.

Lemma iter_elems_spec v l : iter_elems v = Some l <-> yields v l.
Proof.
  split.
  - destruct v; cbn; intros [= <-]; constructor.
  - destruct 1; reflexivity.
Qed.

Lemma mem_str_In x l : mem_str x l = true <-> In x l.
Proof.
  induction l as [|y r IH]; cbn; [split; [discriminate|tauto]|].
  rewrite orb_true_iff, IH, str_eqb_eq. split; intros [H|H]; auto.
Qed.

Lemma forallb_Forall {A} (p : A -> bool) (P : A -> Prop) l :
  (forall x, p x = true <-> P x) -> forallb p l = true <-> Forall P l.
Proof.
  intros Hp. rewrite forallb_forall, Forall_forall. split; intros H x Hx; apply Hp; auto.
Qed.

Lemma check_all_ok {A} (f : A -> vres) l : check_all f l = Ok tt <-> Forall (fun x => f x = Ok tt) l.
Proof.
  induction l as [|x r IH]; cbn; [split; [constructor|reflexivity]|].
  destruct (f x) as [[]|e|] eqn:E.
  - rewrite IH. split; [intros H; constructor; assumption|intros H; now inversion H].
  - split; [discriminate|intros H; inversion H; congruence].
  - split; [discriminate|intros H; inversion H; congruence].
Qed.

Lemma check_all_total {A} (f : A -> vres) l :
  (forall x, f x = Ok tt \/ f x = Raise KValidation) ->
  check_all f l = Ok tt \/ check_all f l = Raise KValidation.
Proof.
  intros Hf. induction l as [|x r IH]; cbn; [now left|].
  destruct (Hf x) as [-> | ->]; [exact IH|now right].
Qed.

Lemma check_all_total3 {A} (f : A -> vres) l :
  (forall x, f x = Ok tt \/ f x = Raise KValidation \/ f x = Raise KType) ->
  check_all f l = Ok tt \/ check_all f l = Raise KValidation \/ check_all f l = Raise KType.
Proof.
  intros Hf. induction l as [|x r IH]; cbn; [now left|].
  destruct (Hf x) as [-> |[-> | ->]]; auto.
Qed.

(* ---- the theorems *)

Theorem check_instance_iff v t : check_instance v t = Ok tt <-> has_class t v.
Proof. unfold check_instance, vok, vfail. rewrite <- isinstance_spec. destruct (isinstance t v); split; congruence. Qed.

Theorem check_boolean_iff v : check_boolean v = Ok tt <-> exists b, v = PBool b.
Proof. apply (check_instance_iff v TBool). Qed.

Theorem check_iterable_iff v : check_iterable v = Ok tt <-> exists l, yields v l.
Proof.
  unfold check_iterable. destruct (iter_elems v) as [l|] eqn:E.
  - split; [intros _; exists l; now apply iter_elems_spec|reflexivity].
  - split; [discriminate|]. intros [l H]. apply iter_elems_spec in H. congruence.
Qed.

Theorem check_instances_iff v t :
  check_instances v t = Ok tt <-> exists l, yields v l /\ Forall (has_class t) l.
Proof.
  unfold check_instances. destruct (iter_elems v) as [l|] eqn:E.
  - apply iter_elems_spec in E. destruct (forallb (isinstance t) l) eqn:F.
    + split; [intros _|reflexivity]. exists l. split; [assumption|].
      apply (forallb_Forall _ _ l (isinstance_spec t)). assumption.
    + split; [discriminate|]. intros (l' & Hy & Hall). apply iter_elems_spec in Hy, E.
      assert (l' = l) by congruence. subst. apply (forallb_Forall _ _ l (isinstance_spec t)) in Hall. congruence.
  - split; [discriminate|]. intros (l & H & _). apply iter_elems_spec in H. congruence.
Qed.

Lemma int_value_spec v z : int_value v = Some z <-> integer_value v z.
Proof.
  unfold integer_value. destruct v; cbn; split; intros H; try discriminate;
    try (destruct H as [H|[[H _]|[H _]]]; discriminate).
  - destruct b; injection H as <-; auto.
  - destruct H as [H|[[H ->]|[H ->]]]; try discriminate; injection H as ->; reflexivity.
  - injection H as ->. auto.
  - destruct H as [H|[[H _]|[H _]]]; try discriminate. now injection H as ->.
Qed.

Theorem check_integer_iff v lo hi :
  check_integer v lo hi = Ok tt <->
  exists z, integer_value v z /\ (forall m, lo = Some m -> m <= z) /\ (forall m, hi = Some m -> z <= m).
Proof.
  unfold check_integer. destruct (int_value v) as [z|] eqn:E.
  - apply int_value_spec in E. split.
    + intros H. exists z. split; [assumption|]. split; intros m ->.
      * destruct (z <? m) eqn:L; [discriminate|]. apply Z.ltb_ge in L. lia.
      * destruct lo as [m0|]; [destruct (z <? m0); [discriminate|]|];
          (destruct (m <? z) eqn:L; [discriminate|]; apply Z.ltb_ge in L; lia).
    + intros (z' & Hz & Hlo & Hhi). apply int_value_spec in Hz, E. assert (z' = z) by congruence. subst.
      assert (L1 : match lo with Some m => z <? m | None => false end = false).
      { destruct lo as [m|]; [|reflexivity]. apply Z.ltb_ge. now apply Hlo. }
      assert (L2 : match hi with Some m => m <? z | None => false end = false).
      { destruct hi as [m|]; [|reflexivity]. apply Z.ltb_ge. now apply Hhi. }
      now rewrite L1, L2.
  - split; [discriminate|]. intros (z & Hz & _). apply int_value_spec in Hz. congruence.
Qed.

(* check_choice: Ok iff the argument is one of the strings; TypeError iff it cannot be hashed;
   ValidationError otherwise *)
Theorem check_choice_iff v choices :
  (check_choice v choices = Ok tt <-> exists s, v = PStr s /\ In s choices) /\
  (check_choice v choices = Raise KType <-> hashable v = false) /\
  (check_choice v choices = Ok tt \/ check_choice v choices = Raise KType \/
   check_choice v choices = Raise KValidation).
Proof.
  unfold check_choice. destruct (hashable v) eqn:H; cbn [negb].
  - repeat split.
    + destruct v; try discriminate. destruct (mem_str s choices) eqn:M; [|discriminate].
      intros _. exists s. split; [reflexivity|now apply mem_str_In].
    + intros (s & -> & Hs). apply mem_str_In in Hs. now rewrite Hs.
    + destruct v; try discriminate. destruct (mem_str s choices); discriminate.
    + discriminate.
    + destruct v; auto. destruct (mem_str s choices); auto.
  - repeat split; try discriminate; auto.
    intros (s & -> & _). discriminate.
Qed.

Lemma check_uri_iff v : check_uri v = Ok tt <-> valid_uri v.
Proof.
  unfold check_uri, valid_uri. destruct v; try (split; [discriminate|intros (s' & H & _); discriminate]).
  destruct (scheme_of s) eqn:E.
  - split; [discriminate|]. intros (s' & [= <-] & H). congruence.
  - split; [intros _; exists s; split; [reflexivity|congruence]|reflexivity].
Qed.

Lemma check_uri_total v : check_uri v = Ok tt \/ check_uri v = Raise KValidation.
Proof. unfold check_uri, vok, vfail. destruct v; auto. destruct (scheme_of s); auto. Qed.

Theorem check_uris_iff v : check_uris v = Ok tt <-> exists l, yields v l /\ Forall valid_uri l.
Proof.
  unfold check_uris. destruct (iter_elems v) as [l|] eqn:E.
  - apply iter_elems_spec in E. rewrite check_all_ok. split.
    + intros H. exists l. split; [assumption|]. eapply Forall_impl; [|exact H]. intros a. apply check_uri_iff.
    + intros (l' & Hy & Hall). apply iter_elems_spec in Hy, E. assert (l' = l) by congruence. subst.
      eapply Forall_impl; [|exact Hall]. intros a. apply check_uri_iff.
  - split; [discriminate|]. intros (l & H & _). apply iter_elems_spec in H. congruence.
Qed.

Theorem check_uris_total v : check_uris v = Ok tt \/ check_uris v = Raise KValidation.
Proof.
  unfold check_uris. destruct (iter_elems v); [|unfold vfail; now right]. apply check_all_total. apply check_uri_total.
Qed.

Lemma query_value_ok_spec v : query_value_ok v = true <-> nonblank_str v.
Proof.
  unfold query_value_ok, nonblank_str. destruct v; try (split; [discriminate|intros (s' & H & _); discriminate]).
  destruct (strip s) eqn:E.
  - split; [discriminate|]. intros (s' & [= <-] & H). congruence.
  - split; [intros _; exists s; split; [reflexivity|congruence]|reflexivity].
Qed.

Lemma check_query_item_iff fields it : check_query_item fields it = Ok tt <-> valid_query_item fields it.
Proof.
  unfold check_query_item, valid_query_item.
  destruct (check_choice_iff (fst it) fields) as (Hok & _ & Htot).
  destruct (check_choice (fst it) fields) as [[]|e|] eqn:C.
  - destruct (iter_elems (snd it)) as [l|] eqn:E.
    + apply iter_elems_spec in E. destruct (forallb query_value_ok l) eqn:F.
      * split; [intros _|reflexivity]. split; [now apply Hok|]. exists l. split; [assumption|].
        now apply (forallb_Forall _ _ l query_value_ok_spec).
      * split; [discriminate|]. intros (_ & l' & Hy & Hall). apply iter_elems_spec in Hy, E.
        assert (l' = l) by congruence. subst. apply (forallb_Forall _ _ l query_value_ok_spec) in Hall. congruence.
    + split; [discriminate|]. intros (_ & l & H & _). apply iter_elems_spec in H. congruence.
  - split; [discriminate|]. intros (Hk & _). apply Hok in Hk. discriminate.
  - split; [discriminate|]. intros (Hk & _). apply Hok in Hk. discriminate.
Qed.

Theorem check_query_iff v fields :
  check_query v fields = Ok tt <-> exists items, v = PDict items /\ Forall (valid_query_item fields) items.
Proof.
  unfold check_query. destruct v; try (split; [discriminate|intros (i & H & _); discriminate]).
  rewrite check_all_ok. split.
  - intros H. exists items. split; [reflexivity|]. eapply Forall_impl; [|exact H]. intros a. apply check_query_item_iff.
  - intros (i & [= <-] & H). eapply Forall_impl; [|exact H]. intros a. apply check_query_item_iff.
Qed.

(* every check either returns or raises ValidationError (check_choice: or TypeError) *)
Theorem validation_total c :
  vrun c = Ok tt \/ vrun c = Raise KValidation \/ vrun c = Raise KType.
Proof.
  destruct c; cbn.
  - unfold check_instance. destruct (isinstance t v); unfold vok, vfail; auto.
  - unfold check_instances. destruct (iter_elems v); unfold vok, vfail; auto. destruct (forallb (isinstance t) l); unfold vok, vfail; auto.
  - unfold check_boolean, check_instance. destruct (isinstance TBool v); unfold vok, vfail; auto.
  - unfold check_integer. destruct (int_value v); unfold vok, vfail; auto.
    destruct (match lo with Some m => z <? m | None => false end); unfold vok, vfail; auto.
    destruct (match hi with Some m => m <? z | None => false end); unfold vok, vfail; auto.
  - destruct (check_choice_iff v choices) as (_ & _ & [H|[H|H]]); unfold vok, vfail; auto.
  - unfold check_query. destruct v; unfold vok, vfail; auto. apply check_all_total3. intros it.
    unfold check_query_item. destruct (check_choice_iff (fst it) fields) as (_ & _ & [H|[H|H]]); rewrite H; auto.
    destruct (iter_elems (snd it)); unfold vok, vfail; auto. destruct (forallb query_value_ok l); auto.
  - destruct (check_uri_total v); unfold vok, vfail; auto.
  - destruct (check_uris_total v); unfold vok, vfail; auto.
  - unfold check_iterable. destruct (iter_elems v); unfold vok, vfail; auto.
Qed.
