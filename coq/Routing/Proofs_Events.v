(* A broadcast playlist is always a Playlist some asked provider returned (never a discarded
   answer), and a save/create whose outcome is not a Playlist broadcasts nothing. *)
From Coq Require Import ZArith List Bool Lia Arith.
From Common Require Import Res.
From Routing Require Import Model Scheme Obs Spec Proofs_Tables Proofs_Group Proofs_Merge Proofs_Library Proofs_Ops
     Proofs_Routing Proofs_Single.
Import ListNotations.
Open Scope Z_scope.

Theorem playlist_changed_is_validated T P mx o evs id :
  events_spec P o (run_op T P mx o) = Some evs -> In (EvPlaylistChanged id) evs ->
  snd (run_op T P mx o) = Ok (VVal CPlaylist id) /\
  exists b m a, In (Bk b, m, a) (fst (run_op T P mx o)) /\ (m = PCreate \/ m = PSave) /\
                ans P b m a = RVal CPlaylist id.
Proof.
  intros H Hin. destruct o; cbn [events_spec] in H; try (injection H as <-; contradiction).
  - (* create *)
    destruct (snd (run_op T P mx (OCreate n s))) as [v|k|] eqn:E; try (injection H as <-; contradiction).
    destruct v as [| | |c i| | | |]; try (injection H as <-; contradiction).
    destruct c; try (injection H as <-; contradiction). injection H as <-. destruct Hin as [[= ->]|[]].
    split; [reflexivity|]. cbn [run_op] in *. unfold create in *.
    assert (G : forall bs, snd (create_loop P n bs) = Ok (VVal CPlaylist id) ->
                exists b m a, In (Bk b, m, a) (fst (create_loop P n bs)) /\ (m = PCreate \/ m = PSave) /\
                              ans P b m a = RVal CPlaylist id).
    { induction bs as [|b r IH]; cbn; [discriminate|].
      destruct (create_loop P n r) as [lg o'] eqn:Er. cbn [fst snd] in IH.
      destruct (ans P b PCreate (AName n)) as [k| | | | |c i'| |] eqn:Ea; cbn;
        try (intros Ho; destruct (IH Ho) as (b' & m & a & Hb & Hm & Ha); exists b', m, a; auto).
      - destruct (escapes no_reraise k); cbn; [discriminate|].
        intros Ho. destruct (IH Ho) as (b' & m & a & Hb & Hm & Ha). exists b', m, a. auto.
      - destruct c; cbn; try (intros Ho; destruct (IH Ho) as (b' & m & a & Hb & Hm & Ha); exists b', m, a; auto).
        intros [= ->]. exists b, PCreate, (AName n). auto. }
    destruct (match s with Some s0 => tget (t_playlists T) s0 | None => None end); now apply G.
  - (* save *)
    destruct (snd (run_op T P mx (OSave u n))) as [v|k|] eqn:E; try (injection H as <-; contradiction).
    destruct v as [| | |c i| | | |]; try (injection H as <-; contradiction).
    destruct c; try (injection H as <-; contradiction). injection H as <-. destruct Hin as [[= ->]|[]].
    split; [reflexivity|]. cbn [run_op] in *. unfold save in *. destruct u as [u|]; [|discriminate].
    destruct (tget (t_playlists T) (u_scheme u)) as [b|]; [|discriminate]. cbn [fst snd] in *.
    exists b, PSave, (APlaylist u n). split; [now left|]. split; [auto|].
    destruct (ans P b PSave (APlaylist u n)) as [k| | | | |c i'| |]; try discriminate.
    + destruct (escapes assertion_reraise k); discriminate.
    + destruct c; try discriminate. now injection E as ->.
  - (* delete *)
    destruct (snd (run_op T P mx (ODelete u))) as [v|k|]; [|injection H as <-; contradiction|discriminate].
    destruct v as [|[]| | | | | |]; try discriminate; injection H as <-; [destruct Hin as [[=]|[]]|contradiction].
  - (* refresh *)
    destruct (snd (run_op T P mx (OPlRefresh s))); try discriminate. injection H as <-.
    destruct (existsb _ _); [destruct Hin as [[=]|[]]|contradiction].
Qed.

(* save with an answer that fails validation (or None, or an ordinary exception): no event *)
Theorem save_discarded_answer_not_broadcast T P mx u n b :
  tget (t_playlists T) (u_scheme u) = Some b ->
  (forall id, ans P b PSave (APlaylist u n) <> RVal CPlaylist id) ->
  events_spec P (OSave (Some u) n) (run_op T P mx (OSave (Some u) n)) = Some [].
Proof.
  intros Ht Hn. cbn [events_spec run_op]. unfold save. rewrite Ht. cbn [snd].
  destruct (ans P b PSave (APlaylist u n)) as [k| | | | |c i| |]; try reflexivity.
  - destruct (escapes assertion_reraise k); reflexivity.
  - destruct c; try reflexivity. exfalso. now apply (Hn i).
Qed.
