(* Every core request: which exceptions can leave it (containment of backend faults), and
   the mixer. *)
From Coq Require Import ZArith List Bool Lia Arith.
From Common Require Import Res.
From Routing Require Import Model Scheme Obs Spec Proofs_Tables Proofs_Group Proofs_Merge Proofs_Library.
Import ListNotations.
Open Scope Z_scope.



Lemma fold_res_fail {A B} (f : A -> B -> res kind A) l : forall a,
  match fold_res f l a with
  | Ok _ => True
  | Raise k => exists x a', In x l /\ f a' x = Raise k
  | Diverge => exists x a', In x l /\ f a' x = Diverge
  end.
Proof.
  induction l as [|x r IH]; intros a; cbn; [exact I|].
  destruct (f a x) as [a1|k|] eqn:E.
  - specialize (IH a1). destruct (fold_res f r a1); [exact I| |];
      destruct IH as (y & a' & Hy & Hf); exists y, a'; auto.
  - exists x, a. auto.
  - exists x, a. auto.
Qed.

Lemma ordinary_false k : ordinary k = false -> k = KBase.
Proof. destruct k; cbn; congruence. Qed.

Lemma search_escapes_inv k : search_escapes k = true -> k = KBase \/ k = KLookup.
Proof. destruct k; cbn; intros H; try discriminate; auto. Qed.

Lemma assertion_escapes_inv k : escapes assertion_reraise k = true -> k = KBase \/ k = KAssertion.
Proof. destruct k; cbn; intros H; try discriminate; auto. Qed.

Ltac kill_as_instances :=
  repeat match goal with
         | H : context [match as_instances ?c ?r with _ => _ end] |- _ => destruct (as_instances c r)
         | |- context [match as_instances ?c ?r with _ => _ end] => destruct (as_instances c r)
         | |- context [if forallb ?p ?l then _ else _] => destruct (forallb p l)
         end.

Lemma search_step_fail P q e acc g :
  match search_step P q e acc g with
  | Ok _ => True
  | Raise k => ans P (fst g) MSearch (ASearch q (snd g) e) = RRaise k /\ (k = KBase \/ k = KLookup)
  | Diverge => False
  end.
Proof.
  unfold search_step. destruct (ans P (fst g) MSearch (ASearch q (snd g) e)) as [k| | | | |c id| |]; try exact I.
  - destruct (search_escapes k) eqn:E; [|exact I]. split; [reflexivity|now apply search_escapes_inv].
  - destruct c; exact I.
Qed.

Lemma root_step_fail P acc b :
  match root_step P acc b with
  | Ok _ => True
  | Raise k => ans P b MRoot AUnit = RRaise k /\ k = KBase
  | Diverge => False
  end.
Proof.
  unfold root_step. destruct (ans P b MRoot AUnit) as [k| | | | |c id| |]; try exact I.
  - destruct (escapes no_reraise k) eqn:E; [|exact I]. apply escapes_no_reraise in E. subst. auto.
  - destruct c; exact I.
Qed.

Lemma distinct_step_fail P f q acc b :
  match distinct_step P f q acc b with
  | Ok _ => True
  | Raise k => ans P b MDistinct (ADistinct (field_compat f) q) = RRaise k /\ k = KBase
  | Diverge => False
  end.
Proof.
  unfold distinct_step. destruct (ans P b MDistinct (ADistinct (field_compat f) q)) as [k| | | | | | |];
    try exact I; kill_as_instances; try exact I.
  destruct (escapes no_reraise k) eqn:E; [|exact I]. apply escapes_no_reraise in E. subst. auto.
Qed.

Lemma refresh_step_fail P m a acc b :
  match refresh_step P m a acc b with
  | Ok _ => True
  | Raise k => ans P b m a = RRaise k /\ k = KBase
  | Diverge => False
  end.
Proof.
  unfold refresh_step. destruct (ans P b m a) as [k| | | | | | |]; try exact I.
  destruct (escapes no_reraise k) eqn:E; [|exact I]. apply escapes_no_reraise in E. subst. auto.
Qed.

Lemma as_list_step_fail P acc b :
  match as_list_step P acc b with
  | Ok _ => True
  | Raise k => ans P b PAsList AUnit = RRaise k /\ k = KBase
  | Diverge => False
  end.
Proof.
  unfold as_list_step. destruct (ans P b PAsList AUnit) as [k| | | | | | |];
    try exact I; kill_as_instances; try exact I.
  destruct (ordinary k) eqn:E; [exact I|]. apply ordinary_false in E. subst. auto.
Qed.

Lemma create_loop_fail P n : forall bs log out,
  create_loop P n bs = (log, out) ->
  match out with
  | Ok _ => True
  | Raise k => k = KBase /\ exists b, In (Bk b, PCreate, AName n) log /\ ans P b PCreate (AName n) = RRaise KBase
  | Diverge => False
  end.
Proof.
  induction bs as [|b r IH]; intros log out H; cbn in H.
  - injection H as <- <-. exact I.
  - destruct (create_loop P n r) as [log' out'] eqn:E. specialize (IH log' out' eq_refl).
    destruct (ans P b PCreate (AName n)) as [k| | | | |c id| |] eqn:Ea;
      try (injection H as <- <-; destruct out' as [v|k'|]; [exact I| |exact IH];
           destruct IH as [-> (b' & Hb' & Hans)]; split; [reflexivity|exists b'; split; [now right|assumption]]).
    + destruct (escapes no_reraise k) eqn:Ee.
      * injection H as <- <-. apply escapes_no_reraise in Ee. subst k. split; [reflexivity|].
        exists b. split; [now left|assumption].
      * injection H as <- <-. destruct out' as [v|k'|]; [exact I| |exact IH].
        destruct IH as [-> (b' & Hb' & Hans)]. split; [reflexivity|exists b'; split; [now right|assumption]].
    + destruct c; try (injection H as <- <-; destruct out' as [v|k'|]; [exact I| |exact IH];
           destruct IH as [-> (b' & Hb' & Hans)]; split; [reflexivity|exists b'; split; [now right|assumption]]).
      injection H as <- <-. exact I.
Qed.


Lemma fold_raise_shape {A} (step : A -> nat -> res kind A) (mk : nat -> call) (fn : A -> value)
      P mx bs a0 (m : meth) (a : arg) :
  (forall b, mk b = (Bk b, m, a)) ->
  (forall acc b, match step acc b with
                 | Ok _ => True
                 | Raise k => ans P b m a = RRaise k /\ k = KBase
                 | Diverge => False end) ->
  forall extra, raise_shape P mx (map mk (extra ++ bs)) (rmap_res fn (fold_res step bs a0)).
Proof.
  intros Hmk Hstep extra. pose proof (fold_res_fail step bs a0) as F.
  destruct (fold_res step bs a0) as [x|k|]; cbn; [exact I| |].
  - destruct F as (b & acc & Hb & Hs). specialize (Hstep acc b). rewrite Hs in Hstep.
    destruct Hstep as [Ha ->]. right. exists (Bk b), m, a. split; [|split; [assumption|now left]].
    rewrite <- Hmk. apply in_map. apply in_or_app. now right.
  - destruct F as (b & acc & Hb & Hs). specialize (Hstep acc b). now rewrite Hs in Hstep.
Qed.

Lemma In_dedup x l : In x (dedup l) <-> In x l.
Proof.
  induction l as [|y r IH]; cbn; [tauto|]. rewrite filter_In, IH.
  destruct (Nat.eq_dec x y) as [->|Hne].
  - tauto.
  - split; [intros [H|[H _]]; auto|]. intros [H|H]; [auto|right]. split; [assumption|].
    apply negb_true_iff. now apply Nat.eqb_neq.
Qed.

Theorem run_op_raise_shape T P mx o log out :
  run_op T P mx o = (log, out) -> raise_shape P mx log out.
Proof.
  destruct o; cbn [run_op]; intros H.
  - (* construct *) injection H as <- <-. exact I.
  - (* lookup *) destruct out as [v|k|]; [exact I| |now apply lookup_terminates in H].
    apply lookup_raise in H. destruct H as [(-> & -> & _)|(-> & b & a & Hin & Ha)]; [now left|].
    right. exists (Bk b), MLookupMany, a. split; [assumption|split; [assumption|now left]].
  - (* get_images *) destruct out as [v|k|]; [exact I| |now apply images_terminates in H].
    apply images_raise in H. destruct H as [(-> & -> & _)|(-> & b & a & Hin & Ha)]; [now left|].
    right. exists (Bk b), MGetImages, a. split; [assumption|split; [assumption|now left]].
  - (* search *) unfold search in H.
    destruct (match us with Some l => existsb bad_uri l | None => false end); [injection H as <- <-; now left|].
    destruct (negb (sq_valid (sq_normalize q))); [injection H as <- <-; now left|].
    set (q' := sq_normalize q) in *.
    assert (G : forall gs, raise_shape P mx (map (fun g => (Bk (fst g), MSearch, ASearch q' (snd g) exact)) gs)
                                       (rmap_res VList (fold_res (search_step P q' exact) gs []))).
    { intros gs. pose proof (fold_res_fail (search_step P q' exact) gs []) as F.
      destruct (fold_res (search_step P q' exact) gs []) as [x|k|]; cbn; [exact I| |].
      - destruct F as (g & acc & Hg & Hs). pose proof (search_step_fail P q' exact acc g) as S. rewrite Hs in S.
        destruct S as [Ha Hk]. right. exists (Bk (fst g)), MSearch, (ASearch q' (snd g) exact).
        split; [apply in_map_iff; exists g; auto|split; [assumption|]].
        destruct Hk as [->| ->]; [now left|right; split; [eauto|left; auto]].
      - destruct F as (g & acc & Hg & Hs). pose proof (search_step_fail P q' exact acc g) as S. now rewrite Hs in S. }
    destruct q'; try (injection H as <- <-; apply G). injection H as <- <-. exact I.
  - (* browse *) unfold browse in H. destruct a as [| |u].
    + injection H as <- <-.
      pose proof (fold_res_fail (root_step P) (dedup (tvalues (t_browse T))) []) as F.
      destruct (fold_res (root_step P) (dedup (tvalues (t_browse T))) []) as [x|k|]; cbn; [exact I| |].
      * destruct F as (b & acc & Hb & Hs). pose proof (root_step_fail P acc b) as S. rewrite Hs in S.
        destruct S as [Ha ->]. right. exists (Bk b), MRoot, AUnit. split; [|split; [assumption|now left]].
        apply in_map_iff. exists b. split; [reflexivity|now apply In_dedup].
      * destruct F as (b & acc & Hb & Hs). pose proof (root_step_fail P acc b) as S. now rewrite Hs in S.
    + injection H as <- <-. exact I.
    + destruct (bad_uri u); [injection H as <- <-; now left|].
      destruct (tget (t_browse T) (u_scheme u)) as [b|]; [|injection H as <- <-; exact I].
      injection H as <- <-. destruct (ans P b MBrowse (AUri u)) as [k| | | | | | |] eqn:Ea; kill_as_instances; try exact I.
      destruct (escapes no_reraise k) eqn:E; [|exact I]. apply escapes_no_reraise in E. subst k.
      right. exists (Bk b), MBrowse, (AUri u). split; [now left|split; [assumption|now left]].
  - (* get_distinct *) unfold get_distinct in H.
    destruct (negb (field_valid f)); [injection H as <- <-; now left|].
    destruct (negb (dq_valid q)); [injection H as <- <-; now left|].
    injection H as <- <-.
    pose proof (fold_res_fail (distinct_step P f q) (dedup (tvalues (t_lib T))) []) as F.
    destruct (fold_res (distinct_step P f q) (dedup (tvalues (t_lib T))) []) as [x|k|]; cbn; [exact I| |].
    + destruct F as (b & acc & Hb & Hs). pose proof (distinct_step_fail P f q acc b) as S. rewrite Hs in S.
      destruct S as [Ha ->]. right. exists (Bk b), MDistinct, (ADistinct (field_compat f) q).
      split; [|split; [assumption|now left]].
      apply in_map_iff. exists b. split; [reflexivity|now apply In_dedup].
    + destruct F as (b & acc & Hb & Hs). pose proof (distinct_step_fail P f q acc b) as S. now rewrite Hs in S.
  - (* refresh *) unfold refresh in H.
    destruct (match u with Some x => bad_uri x | None => false end); [injection H as <- <-; now left|].
    injection H as <- <-.
    apply (fold_raise_shape (refresh_step P MRefresh (AOptUri u)) _ _ P mx _ tt MRefresh (AOptUri u)
                            (fun _ => eq_refl) (refresh_step_fail P MRefresh (AOptUri u)) []).
  - (* get_uri_schemes *) injection H as <- <-. exact I.
  - (* as_list *) unfold as_list in H. injection H as <- <-.
    apply (fold_raise_shape (as_list_step P) _ _ P mx _ [] PAsList AUnit (fun _ => eq_refl) (as_list_step_fail P) []).
  - (* get_items *) unfold get_items in H. destruct (bad_uri u); [injection H as <- <-; now left|].
    destruct (tget (t_playlists T) (u_scheme u)) as [b|]; [|injection H as <- <-; exact I].
    injection H as <- <-. destruct (ans P b PGetItems (AUri u)) as [k| | | | | | |] eqn:Ea; kill_as_instances; try exact I.
    destruct (escapes no_reraise k) eqn:E; [|exact I]. apply escapes_no_reraise in E. subst k.
    right. exists (Bk b), PGetItems, (AUri u). split; [now left|split; [assumption|now left]].
  - (* playlists.lookup *) unfold pl_lookup in H.
    destruct (tget (t_playlists T) (u_scheme u)) as [b|]; [|injection H as <- <-; exact I].
    injection H as <- <-. destruct (ans P b PLookup (AUri u)) as [k| | | | |c id| |] eqn:Ea; try exact I.
    + destruct (escapes no_reraise k) eqn:E; [|exact I]. apply escapes_no_reraise in E. subst k.
      right. exists (Bk b), PLookup, (AUri u). split; [now left|split; [assumption|now left]].
    + destruct c; exact I.
  - (* create *) unfold create in H.
    assert (G : forall bs, create_loop P n bs = (log, out) -> raise_shape P mx log out).
    { intros bs Hc. apply create_loop_fail in Hc. destruct out as [v|k|]; [exact I| |exact Hc].
      destruct Hc as [-> (b & Hb & Ha)]. right. exists (Bk b), PCreate, (AName n).
      split; [assumption|split; [assumption|now left]]. }
    destruct (match s with Some s0 => tget (t_playlists T) s0 | None => None end); eapply G; eassumption.
  - (* save *) unfold save in H. destruct u as [u|]; [|injection H as <- <-; exact I].
    destruct (tget (t_playlists T) (u_scheme u)) as [b|]; [|injection H as <- <-; exact I].
    injection H as <- <-. destruct (ans P b PSave (APlaylist u n)) as [k| | | | |c id| |] eqn:Ea; try exact I.
    + destruct (escapes assertion_reraise k) eqn:E; [|exact I]. apply assertion_escapes_inv in E.
      right. exists (Bk b), PSave, (APlaylist u n). split; [now left|split; [assumption|]].
      destruct E as [->| ->]; [now left|right; split; [eauto|right; auto]].
    + destruct c; exact I.
  - (* delete *) unfold delete in H. destruct (bad_uri u); [injection H as <- <-; now left|].
    destruct (tget (t_playlists T) (u_scheme u)) as [b|]; [|injection H as <- <-; exact I].
    injection H as <- <-. destruct (ans P b PDelete (AUri u)) as [k| | | | | | |] eqn:Ea; try exact I.
    destruct (escapes no_reraise k) eqn:E; [|exact I]. apply escapes_no_reraise in E. subst k.
    right. exists (Bk b), PDelete, (AUri u). split; [now left|split; [assumption|now left]].
  - (* playlists.refresh *) unfold pl_refresh in H. injection H as <- <-.
    apply (fold_raise_shape (refresh_step P PRefresh AUnit) _ _ P mx _ tt PRefresh AUnit
                            (fun _ => eq_refl) (refresh_step_fail P PRefresh AUnit) []).
  - (* get_volume *) unfold get_volume in H. destruct mx as [f|]; [|injection H as <- <-; exact I].
    injection H as <- <-. destruct (f XGetVolume AUnit) as [k| | | | | | |z] eqn:Ea; try exact I.
    + destruct (ordinary k) eqn:E; [exact I|]. apply ordinary_false in E. subst k.
      right. exists Mx, XGetVolume, AUnit. split; [now left|split; [assumption|now left]].
    + destruct ((0 <=? z) && (z <=? 100)); exact I.
  - (* set_volume *) unfold set_volume in H.
    destruct (negb ((0 <=? v) && (v <=? 100))); [injection H as <- <-; now left|].
    destruct mx as [f|]; [|injection H as <- <-; exact I].
    injection H as <- <-. destruct (f XSetVolume (AInt v)) as [k| | | | | | |] eqn:Ea; try exact I.
    destruct (ordinary k) eqn:E; [exact I|]. apply ordinary_false in E. subst k.
    right. exists Mx, XSetVolume, (AInt v). split; [now left|split; [assumption|now left]].
  - (* get_mute *) unfold get_mute in H. destruct mx as [f|]; [|injection H as <- <-; exact I].
    injection H as <- <-. destruct (f XGetMute AUnit) as [k| | | | | | |] eqn:Ea; try exact I.
    destruct (ordinary k) eqn:E; [exact I|]. apply ordinary_false in E. subst k.
    right. exists Mx, XGetMute, AUnit. split; [now left|split; [assumption|now left]].
  - (* set_mute *) unfold set_mute in H. destruct mx as [f|]; [|injection H as <- <-; exact I].
    injection H as <- <-. destruct (f XSetMute (ABool m)) as [k| | | | | | |] eqn:Ea; try exact I.
    destruct (ordinary k) eqn:E; [exact I|]. apply ordinary_false in E. subst k.
    right. exists Mx, XSetMute, (ABool m). split; [now left|split; [assumption|now left]].
  - (* Core.get_uri_schemes *) injection H as <- <-. exact I.
Qed.
