(* The boolean trace predicate trace_ok_b (T1, T2-soundness, T3, typing, raise shape) holds for
   every observation the model can produce.  The harness evaluates the same function on the
   implementation's observations. *)
From Coq Require Import ZArith List Bool Lia Arith.
From Common Require Import Res.
From Routing Require Import Model Scheme Obs Spec Proofs_Tables Proofs_Group Proofs_Merge Proofs_Library Proofs_Ops
     Proofs_Routing Proofs_Witness.
Import ListNotations.
Open Scope Z_scope.

Lemma owns_b_spec flag P i s : owns_b flag P i s = true <-> owns flag P i s.
Proof.
  unfold owns_b, owns. destruct (nth_error P i) as [b|].
  - rewrite !andb_true_iff, mem_z_In. split.
    + intros [[H1 H2] H3]. exists b. auto.
    + intros (b' & [= <-] & H1 & H2 & H3). auto.
  - split; [discriminate|intros (b' & H & _); discriminate].
Qed.

Lemma provider_b_spec flag P i : provider_b flag P i = true <-> exists s, owns flag P i s.
Proof.
  unfold provider_b, owns. destruct (nth_error P i) as [b|].
  - rewrite !andb_true_iff. split.
    + intros [[H1 H2] H3]. destruct (b_schemes b) as [|s r] eqn:E; [discriminate|].
      exists s, b. rewrite E. repeat split; auto. now left.
    + intros (s & b' & [= <-] & H1 & H2 & H3). destruct (b_schemes b); [contradiction|auto].
  - split; [discriminate|intros (s & b' & H & _); discriminate].
Qed.

Lemma has_owner_b_false flag P s : has_owner_b flag P s = false -> forall b, ~ owns flag P b s.
Proof.
  intros H b Ho. assert (has_owner_b flag P s = true); [|congruence].
  unfold has_owner_b. apply existsb_exists. exists b. split; [|now apply owns_b_spec].
  apply in_seq. destruct Ho as (bk & Hn & _). split; [lia|]. cbn. apply nth_error_Some. congruence.
Qed.

Lemma nodup_uri_b_spec l : NoDup l -> nodup_uri_b l = true.
Proof.
  induction 1 as [|u r Hx Hr IH]; cbn; [reflexivity|]. rewrite IH, andb_true_r.
  apply negb_true_iff. destruct (mem_uri u r) eqn:E; [apply mem_uri_In in E; contradiction|reflexivity].
Qed.

Lemma keys_exact_b_spec us m :
  NoDup (keys m) -> (forall u, In u (keys m) <-> In u us) -> keys_exact_b us m = true.
Proof.
  intros Hn Hk. unfold keys_exact_b. rewrite (nodup_uri_b_spec _ Hn). cbn.
  apply andb_true_iff. split; apply forallb_forall; intros u Hu; apply mem_uri_In; now apply Hk.
Qed.

Lemma call_sound_from_routing P T mx o log out :
  mk_backends P = Ok T -> run_op T P mx o = (log, out) -> forallb (call_sound_b P) log = true.
Proof.
  intros HT H. apply forallb_forall. intros [[w m] a] Hin. destruct w as [b|]; [|reflexivity].
  destruct (routing_sound P T HT mx o log out H b m a Hin) as [Hp Hall]. cbn.
  apply andb_true_iff. split; [now apply provider_b_spec|].
  apply forallb_forall. intros u Hu. apply owns_b_spec. now apply Hall.
Qed.

Lemma raise_ok_from_shape P mx o log k :
  run P mx o = (log, Raise k) -> raise_ok_b o k log = true.
Proof.
  intros H. pose proof H as Hs. apply run_raise_shape in Hs.
  destruct Hs as [(-> & -> & _)|[(-> & ->)|(w & m & a & Hin & Ha & Hex)]]; try reflexivity.
  assert (Hmeth : In m (op_meths o)).
  { unfold run in H. destruct (mk_backends P) as [T|e|] eqn:ET; [|injection H as <- _; contradiction|discriminate].
    now destruct (log_methods T P mx o log _ H w m a Hin). }
  destruct Hex as [->|[[b ->] [[-> ->]|[-> ->]]]].
  - cbn. destruct log; [contradiction|reflexivity].
  - cbn. destruct o; cbn in Hmeth; try reflexivity; exfalso; intuition discriminate.
  - cbn. destruct log; [reflexivity|]. destruct o; cbn in Hmeth; try reflexivity; exfalso; intuition discriminate.
Qed.

Lemma In_rget m : NoDup (keys m) -> forall k v, In (k, v) m -> rget m k = Some v.
Proof.
  induction m as [|[k0 v0] r IH]; intros Hn k v Hin; [contradiction|].
  cbn in Hn. inversion Hn as [|? ? Hx Hr]; subst. cbn. destruct Hin as [[= -> ->]|Hin].
  - now rewrite uri_eqb_refl.
  - destruct (uri_eqb k k0) eqn:E; [|now apply IH].
    apply uri_eqb_eq in E. subst k0. exfalso. apply Hx. apply in_map_iff. now exists (k, v).
Qed.

(* every observation of the model passes the boolean trace predicate *)
Theorem trace_ok_model P mx o : trace_ok_b P o (run P mx o) = true.
Proof.
  destruct (run P mx o) as [log out] eqn:R. unfold trace_ok_b. cbn [fst snd].
  pose proof R as R0. unfold run in R.
  destruct (mk_backends P) as [T|e|] eqn:ET.
  - rewrite (call_sound_from_routing P T mx o log out ET R). cbn [andb].
    destruct out as [v|k|].
    + destruct o; try reflexivity; cbn [run_op] in R.
      * destruct (lookup_keys_exact_lemma _ _ _ _ _ R) as (m & -> & Hn & Hk).
        rewrite (keys_exact_b_spec us m Hn Hk). cbn [andb]. apply andb_true_iff. split.
        -- apply forallb_forall. intros u Hu. destruct (has_owner_b b_lib P (u_scheme u)) eqn:Eo; [reflexivity|].
           cbn. rewrite (lookup_unknown_empty P T us log m u ET R Hu (has_owner_b_false _ _ _ Eo)). reflexivity.
        -- apply forallb_forall. intros [k es] Hin. apply forallb_forall. intros e He. cbn in He.
           destruct (lookup_provenance_lemma T P us log m k es e R (In_rget m Hn k es Hin) He)
             as (b & items & v & _ & _ & _ & _ & _ & H1 & H2). now rewrite H1, H2.
      * destruct (images_keys_exact_lemma _ _ _ _ _ R) as (m & -> & Hn & Hk).
        rewrite (keys_exact_b_spec us m Hn Hk). cbn [andb]. apply andb_true_iff. split.
        -- apply forallb_forall. intros u Hu. destruct (has_owner_b b_lib P (u_scheme u)) eqn:Eo; [reflexivity|].
           cbn. rewrite (images_unknown_empty P T us log m u ET R Hu (has_owner_b_false _ _ _ Eo)). reflexivity.
        -- apply forallb_forall. intros [k es] Hin. apply forallb_forall. intros e He. cbn in He.
           destruct (images_provenance_lemma T P us log m k es e R (In_rget m Hn k es Hin) He)
             as (b & items & v & _ & _ & _ & _ & _ & H1). exact H1.
    + now apply (raise_ok_from_shape P mx).
    + exfalso. now apply (run_terminates P mx o log).
  - injection R as <- <-. cbn. apply mk_backends_only_assertion in ET. now subst.
  - exfalso. now apply mk_backends_terminates in ET.
Qed.
