(* Backends construction: the scheme tables are exactly the registered schemes of the
   backends offering the provider, and start-up fails exactly when a scheme is claimed twice. *)
From Coq Require Import ZArith List Bool Lia Arith.
From Common Require Import Res.
From Routing Require Import Model Scheme Obs Spec.
Import ListNotations.
Open Scope Z_scope.

Lemma mem_z_In x l : mem_z x l = true <-> In x l.
Proof.
  induction l as [|y l IH]; cbn; [split; [discriminate|tauto]|].
  rewrite orb_true_iff, IH, Z.eqb_eq. split; intros [H|H]; auto.
Qed.

Lemma uri_eqb_eq a b : uri_eqb a b = true <-> a = b.
Proof.
  destruct a as [a1 a2], b as [b1 b2]. unfold uri_eqb; cbn.
  rewrite andb_true_iff, !Z.eqb_eq. split; [intros [-> ->]; reflexivity|intros [= -> ->]; auto].
Qed.

Lemma uri_eqb_refl a : uri_eqb a a = true.
Proof. apply uri_eqb_eq. reflexivity. Qed.

Lemma uri_eqb_neq a b : uri_eqb a b = false <-> a <> b.
Proof.
  split; intros H.
  - intros E. apply uri_eqb_eq in E. congruence.
  - destruct (uri_eqb a b) eqn:E; [apply uri_eqb_eq in E; contradiction|reflexivity].
Qed.

Lemma uri_eqb_sym a b : uri_eqb a b = uri_eqb b a.
Proof.
  destruct (uri_eqb a b) eqn:E.
  - apply uri_eqb_eq in E. subst. symmetry. apply uri_eqb_refl.
  - symmetry. apply uri_eqb_neq. apply uri_eqb_neq in E. congruence.
Qed.

Lemma mem_uri_In u l : mem_uri u l = true <-> In u l.
Proof.
  induction l as [|y l IH]; cbn; [split; [discriminate|tauto]|].
  rewrite orb_true_iff, IH, uri_eqb_eq. split; intros [H|H]; auto.
Qed.

Lemma NoDup_app_iff' {A} (l l' : list A) :
  NoDup (l ++ l') <-> NoDup l /\ NoDup l' /\ (forall a, In a l -> ~ In a l').
Proof.
  induction l as [|x l IH]; cbn.
  - split; [intros H; repeat split; [constructor|assumption|tauto]|tauto].
  - split.
    + intros H. inversion H as [|? ? Hx Hr]; subst. apply IH in Hr. destruct Hr as (H1 & H2 & H3).
      repeat split; [constructor; [intro; apply Hx; apply in_or_app; auto|assumption]|assumption|].
      intros a [->|Ha]; [intro; apply Hx; apply in_or_app; auto|auto].
    + intros (H1 & H2 & H3). inversion H1 as [|? ? Hx Hr]; subst. constructor.
      * intro Hin. apply in_app_or in Hin. destruct Hin as [Hin|Hin]; [auto|apply (H3 x); auto].
      * apply IH. repeat split; auto.
Qed.




Definition tables_spec (i : nat) (bs : list backend) (T T' : tables) : Prop :=
  t_lib T' = t_lib T ++ spec_table b_lib i bs /\
  t_browse T' = t_browse T ++ spec_table b_browse i bs /\
  t_playback T' = t_playback T ++ spec_table b_playback i bs /\
  t_playlists T' = t_playlists T ++ spec_table b_playlists i bs.

Lemma add_if_app c t s i : add_if c t s i = t ++ (if c then [(s, i)] else []).
Proof. destruct c; cbn; [reflexivity|now rewrite app_nil_r]. Qed.

Lemma add_schemes_ok i b ss : forall seen T seen' T',
  add_schemes i b ss seen T = Ok (seen', T') ->
  seen' = rev ss ++ seen /\ NoDup ss /\ (forall s, In s ss -> ~ In s seen) /\
  t_lib T' = t_lib T ++ (if b_lib b then map (fun s => (s, i)) ss else []) /\
  t_browse T' = t_browse T ++ (if b_browse b then map (fun s => (s, i)) ss else []) /\
  t_playback T' = t_playback T ++ (if b_playback b then map (fun s => (s, i)) ss else []) /\
  t_playlists T' = t_playlists T ++ (if b_playlists b then map (fun s => (s, i)) ss else []).
Proof.
  induction ss as [|s r IH]; intros seen T seen' T' H; cbn in H.
  - injection H as <- <-. cbn. repeat split; try constructor; try tauto;
      destruct (b_lib b), (b_browse b), (b_playback b), (b_playlists b); now rewrite app_nil_r.
  - destruct (mem_z s seen) eqn:Em; [discriminate|].
    apply IH in H. destruct H as (Hs & Hnd & Hdis & Hl & Hb & Hp & Hq). cbn [t_lib t_browse t_playback t_playlists] in *.
    assert (Hns : ~ In s seen) by (intro Hi; apply mem_z_In in Hi; congruence).
    split; [cbn; rewrite <- app_assoc; exact Hs|].
    split; [constructor; [intro Hi; apply (Hdis s Hi); now left|assumption]|].
    split; [intros x [<-|Hx]; [assumption|intro Hi; apply (Hdis x Hx); now right]|].
    rewrite add_if_app in Hl, Hb, Hp, Hq. rewrite <- app_assoc in Hl, Hb, Hp, Hq.
    repeat split; [rewrite Hl; destruct (b_lib b)|rewrite Hb; destruct (b_browse b)
                  |rewrite Hp; destruct (b_playback b)|rewrite Hq; destruct (b_playlists b)]; reflexivity.
Qed.

Lemma add_schemes_complete i b ss : forall seen T,
  NoDup ss -> (forall s, In s ss -> ~ In s seen) -> exists r, add_schemes i b ss seen T = Ok r.
Proof.
  induction ss as [|s r IH]; intros seen T Hnd Hdis; cbn; [eauto|].
  inversion Hnd as [|? ? Hs Hr]; subst.
  destruct (mem_z s seen) eqn:Em; [apply mem_z_In in Em; exfalso; apply (Hdis s); [now left|assumption]|].
  apply IH; [assumption|]. intros x Hx [<-|Hi]; [contradiction|apply (Hdis x); [now right|assumption]].
Qed.

Lemma add_schemes_fail i b ss : forall seen T,
  match add_schemes i b ss seen T with
  | Ok _ => True
  | Raise e => e = KAssertion /\ ~ (NoDup ss /\ forall s, In s ss -> ~ In s seen)
  | Diverge => False
  end.
Proof.
  induction ss as [|s r IH]; intros seen T; cbn; [exact I|].
  destruct (mem_z s seen) eqn:Em.
  - split; [reflexivity|]. intros [_ H]. apply mem_z_In in Em. apply (H s); [now left|assumption].
  - specialize (IH (s :: seen) (mkT (add_if (b_lib b) (t_lib T) s i) (add_if (b_browse b) (t_browse T) s i)
                                   (add_if (b_playback b) (t_playback T) s i)
                                   (add_if (b_playlists b) (t_playlists T) s i))).
    destruct (add_schemes i b r (s :: seen) _) as [x|e|]; [exact I| |exact IH].
    destruct IH as [-> Hn]. split; [reflexivity|]. intros [Hnd Hdis]. apply Hn.
    inversion Hnd; subst. split; [assumption|].
    intros x Hx [<-|Hi]; [contradiction|apply (Hdis x); [now right|assumption]].
Qed.

Lemma mk_from_ok : forall bs i seen T T',
  mk_from i bs seen T = Ok T' ->
  NoDup (live_schemes bs) /\ (forall s, In s (live_schemes bs) -> ~ In s seen) /\ tables_spec i bs T T'.
Proof.
  induction bs as [|b r IH]; intros i seen T T' H; cbn in H.
  - injection H as <-. cbn. repeat split; try constructor; try tauto; now rewrite app_nil_r.
  - unfold live_schemes; cbn [flat_map]; fold (live_schemes r).
    destruct (b_info_ok b) eqn:Ei.
    + destruct (add_schemes i b (b_schemes b) seen T) as [[seen1 T1]|e|] eqn:Ea; try discriminate.
      apply add_schemes_ok in Ea. destruct Ea as (Hs & Hnd & Hdis & Hl & Hb & Hp & Hq).
      apply IH in H. destruct H as (Hnd' & Hdis' & Hl' & Hb' & Hp' & Hq'). subst seen1.
      split; [apply NoDup_app_iff'; repeat split; try assumption;
              intros a Ha Hr; apply (Hdis' a Hr); apply in_or_app; left; now apply in_rev in Ha|].
      split; [intros s Hs; apply in_app_or in Hs; destruct Hs as [Hs|Hs];
              [now apply Hdis|intro Hi; apply (Hdis' s Hs); apply in_or_app; now right]|].
      unfold tables_spec; cbn [spec_table]; rewrite Ei; cbn [andb].
      rewrite Hl', Hb', Hp', Hq', Hl, Hb, Hp, Hq, <- !app_assoc. repeat split; reflexivity.
    + apply IH in H. destruct H as (Hnd' & Hdis' & Hspec). cbn [app].
      repeat split; try assumption; unfold tables_spec in *; cbn [spec_table]; rewrite Ei; cbn; tauto.
Qed.

Lemma mk_from_complete : forall bs i seen T,
  NoDup (live_schemes bs) -> (forall s, In s (live_schemes bs) -> ~ In s seen) ->
  exists T', mk_from i bs seen T = Ok T'.
Proof.
  induction bs as [|b r IH]; intros i seen T Hnd Hdis; cbn; [eauto|].
  unfold live_schemes in Hnd, Hdis; cbn [flat_map] in Hnd, Hdis; fold (live_schemes r) in Hnd, Hdis.
  destruct (b_info_ok b) eqn:Ei.
  - apply NoDup_app_iff' in Hnd. destruct Hnd as (H1 & H2 & H3).
    destruct (add_schemes_complete i b (b_schemes b) seen T H1) as [[seen1 T1] Ea].
    { intros s Hs. apply Hdis. apply in_or_app. now left. }
    rewrite Ea. apply add_schemes_ok in Ea. destruct Ea as (-> & _).
    apply IH; [assumption|]. intros s Hs Hi. apply in_app_or in Hi. destruct Hi as [Hi|Hi].
    + apply in_rev in Hi. apply (H3 s Hi Hs).
    + apply (Hdis s); [apply in_or_app; now right|assumption].
  - apply IH; assumption.
Qed.

Lemma mk_from_fail : forall bs i seen T,
  match mk_from i bs seen T with
  | Ok _ => True
  | Raise e => e = KAssertion
  | Diverge => False
  end.
Proof.
  induction bs as [|b r IH]; intros i seen T; cbn; [exact I|].
  destruct (b_info_ok b); [|apply IH].
  pose proof (add_schemes_fail i b (b_schemes b) seen T) as H.
  destruct (add_schemes i b (b_schemes b) seen T) as [[s1 T1]|e|]; [apply IH|tauto|exact H].
Qed.

(* ------------------------------------------------------------------ theorems about mk_backends *)

Theorem mk_backends_ok_iff P : (exists T, mk_backends P = Ok T) <-> NoDup (live_schemes P).
Proof.
  split.
  - intros [T H]. apply mk_from_ok in H. tauto.
  - intros H. apply mk_from_complete; [assumption|]. intros s _ [].
Qed.

Theorem mk_backends_only_assertion P e : mk_backends P = Raise e -> e = KAssertion.
Proof. intros H. pose proof (mk_from_fail P 0 [] empty_tables) as F. unfold mk_backends in H. rewrite H in F. exact F. Qed.

Theorem mk_backends_terminates P : mk_backends P <> Diverge.
Proof. intros H. pose proof (mk_from_fail P 0 [] empty_tables) as F. unfold mk_backends in H. rewrite H in F. exact F. Qed.

Theorem mk_backends_tables P T :
  mk_backends P = Ok T ->
  t_lib T = spec_table b_lib 0 P /\ t_browse T = spec_table b_browse 0 P /\
  t_playback T = spec_table b_playback 0 P /\ t_playlists T = spec_table b_playlists 0 P.
Proof. intros H. apply mk_from_ok in H. destruct H as (_ & _ & H). exact H. Qed.

(* T7: two (different) backends claiming one scheme: start-up raises AssertionError *)
Theorem duplicate_scheme_refused_lemma P i j bi bj s :
  i <> j -> nth_error P i = Some bi -> nth_error P j = Some bj ->
  b_info_ok bi = true -> b_info_ok bj = true ->
  In s (b_schemes bi) -> In s (b_schemes bj) ->
  mk_backends P = Raise KAssertion.
Proof.
  intros Hij Hi Hj Oi Oj Si Sj.
  destruct (mk_backends P) as [T|e|] eqn:E.
  - exfalso. assert (Hnd : NoDup (live_schemes P)) by (apply mk_backends_ok_iff; eauto).
    clear E T. revert i j Hij Hi Hj. induction P as [|b r IH]; intros i j Hij Hi Hj; [destruct i; discriminate|].
    unfold live_schemes in Hnd; cbn [flat_map] in Hnd; fold (live_schemes r) in Hnd.
    apply NoDup_app_iff' in Hnd. destruct Hnd as (H1 & H2 & H3).
    assert (Hlive : forall k bk, nth_error r k = Some bk -> b_info_ok bk = true -> In s (b_schemes bk) ->
                                 In s (live_schemes r)).
    { intros k bk Hk Ok Sk. unfold live_schemes. apply in_flat_map. exists bk.
      split; [eapply nth_error_In; eassumption|now rewrite Ok]. }
    destruct i as [|i], j as [|j]; cbn in Hi, Hj.
    + congruence.
    + injection Hi as ->. rewrite Oi in H3. apply (H3 s Si). eapply Hlive; eassumption.
    + injection Hj as ->. rewrite Oj in H3. apply (H3 s Sj). eapply Hlive; eassumption.
    + apply (IH H2 i j); [congruence|assumption|assumption].
  - apply mk_backends_only_assertion in E. now subst.
  - exfalso. now apply mk_backends_terminates in E.
Qed.

(* ------------------------------------------------------------------ ownership *)

Lemma spec_table_In flag : forall bs k s i,
  In (s, i) (spec_table flag k bs) <->
  exists j b, i = (k + j)%nat /\ nth_error bs j = Some b /\ b_info_ok b = true /\ flag b = true /\
              In s (b_schemes b).
Proof.
  induction bs as [|b r IH]; intros k s i; cbn [spec_table].
  - split; [intros []|intros (j & b & _ & H & _); destruct j; discriminate].
  - rewrite in_app_iff, IH. split.
    + intros [H|(j & b' & -> & Hn & Hrest)].
      * destruct (b_info_ok b) eqn:Ei, (flag b) eqn:Ef; cbn in H; try contradiction.
        apply in_map_iff in H. destruct H as (x & [= <- <-] & Hx).
        exists 0%nat, b. rewrite Nat.add_0_r. cbn. auto.
      * exists (S j), b'. cbn. split; [lia|auto].
    + intros (j & b' & -> & Hn & Oi & Of & Hs). destruct j as [|j]; cbn in Hn.
      * injection Hn as <-. left. rewrite Oi, Of. cbn. apply in_map_iff. exists s.
        rewrite Nat.add_0_r. auto.
      * right. exists j, b'. split; [lia|auto].
Qed.

Lemma spec_table_keys_live flag : forall bs k s,
  In s (map fst (spec_table flag k bs)) -> In s (live_schemes bs).
Proof.
  intros bs k s H. apply in_map_iff in H. destruct H as ([s' i] & <- & H). cbn.
  apply spec_table_In in H. destruct H as (j & b & _ & Hn & Oi & _ & Hs).
  unfold live_schemes. apply in_flat_map. exists b. split; [eapply nth_error_In; eassumption|now rewrite Oi].
Qed.

Lemma spec_table_keys_nodup flag : forall bs k,
  NoDup (live_schemes bs) -> NoDup (map fst (spec_table flag k bs)).
Proof.
  induction bs as [|b r IH]; intros k Hnd; cbn [spec_table]; [constructor|].
  unfold live_schemes in Hnd; cbn [flat_map] in Hnd; fold (live_schemes r) in Hnd.
  apply NoDup_app_iff' in Hnd. destruct Hnd as (H1 & H2 & H3).
  rewrite map_app. apply NoDup_app_iff'. split; [|split; [now apply IH|]].
  - destruct (b_info_ok b), (flag b); cbn; try constructor.
    rewrite map_map; cbn. now rewrite map_id.
  - intros a Ha Hr. apply spec_table_keys_live in Hr.
    destruct (b_info_ok b), (flag b); cbn in Ha; try contradiction.
    rewrite map_map in Ha; cbn in Ha. rewrite map_id in Ha. apply (H3 a Ha Hr).
Qed.

Lemma tget_In t : NoDup (map fst t) -> forall s i, tget t s = Some i <-> In (s, i) t.
Proof.
  induction t as [|[s' b] r IH]; intros Hnd s i; cbn.
  - split; [discriminate|tauto].
  - cbn in Hnd. inversion Hnd as [|? ? Hx Hr]; subst. destruct (s =? s') eqn:E.
    + apply Z.eqb_eq in E. subst s'. split.
      * intros [= ->]. now left.
      * intros [[= <-]|Hin]; [reflexivity|]. exfalso. apply Hx. apply in_map_iff. now exists (s, i).
    + apply Z.eqb_neq in E. rewrite (IH Hr). split; [auto|intros [[= -> ->]|H]; [congruence|assumption]].
Qed.

Lemma tget_None t s : tget t s = None <-> ~ In s (map fst t).
Proof.
  induction t as [|[s' b] r IH]; cbn; [tauto|].
  destruct (s =? s') eqn:E.
  - apply Z.eqb_eq in E. split; [discriminate|intros H; exfalso; apply H; now left].
  - apply Z.eqb_neq in E. rewrite IH. split; [intros H [H'|H']; [congruence|auto]|tauto].
Qed.

Theorem tget_owner_gen flag P t :
  NoDup (live_schemes P) -> t = spec_table flag 0 P ->
  forall s i, tget t s = Some i <-> owns flag P i s.
Proof.
  intros Hnd -> s i. rewrite tget_In by now apply spec_table_keys_nodup.
  rewrite spec_table_In. unfold owns. split.
  - intros (j & b & -> & H). exists b. exact H.
  - intros (b & H). exists i, b. split; [reflexivity|exact H].
Qed.

Theorem tget_owner_lib P T : mk_backends P = Ok T ->
  forall s i, tget (t_lib T) s = Some i <-> owns b_lib P i s.
Proof.
  intros H. apply tget_owner_gen; [apply mk_backends_ok_iff; eauto|apply mk_backends_tables in H; tauto].
Qed.
Theorem tget_owner_browse P T : mk_backends P = Ok T ->
  forall s i, tget (t_browse T) s = Some i <-> owns b_browse P i s.
Proof.
  intros H. apply tget_owner_gen; [apply mk_backends_ok_iff; eauto|apply mk_backends_tables in H; tauto].
Qed.
Theorem tget_owner_playlists P T : mk_backends P = Ok T ->
  forall s i, tget (t_playlists T) s = Some i <-> owns b_playlists P i s.
Proof.
  intros H. apply tget_owner_gen; [apply mk_backends_ok_iff; eauto|apply mk_backends_tables in H; tauto].
Qed.
Theorem tget_owner_playback P T : mk_backends P = Ok T ->
  forall s i, tget (t_playback T) s = Some i <-> owns b_playback P i s.
Proof.
  intros H. apply tget_owner_gen; [apply mk_backends_ok_iff; eauto|apply mk_backends_tables in H; tauto].
Qed.

(* a scheme has at most one owner, whatever the provider *)
Theorem owner_unique P T flag flag' i j s :
  mk_backends P = Ok T -> owns flag P i s -> owns flag' P j s -> i = j.
Proof.
  intros H (bi & Hi & Oi & _ & Si) (bj & Hj & Oj & _ & Sj).
  destruct (Nat.eq_dec i j) as [|Hne]; [assumption|exfalso].
  rewrite (duplicate_scheme_refused_lemma P i j bi bj s Hne Hi Hj Oi Oj Si Sj) in H. discriminate.
Qed.

(* values of a table: backends offering the provider with at least one scheme *)
Lemma tvalues_spec flag P i :
  In i (tvalues (spec_table flag 0 P)) <-> exists s, owns flag P i s.
Proof.
  unfold tvalues. rewrite in_map_iff. split.
  - intros ([s j] & <- & H). cbn. apply spec_table_In in H. destruct H as (k & b & -> & H).
    exists s, b. exact H.
  - intros (s & b & H). exists (s, i). split; [reflexivity|]. apply spec_table_In. exists i, b. auto.
Qed.

(* Core.get_uri_schemes(): exactly the schemes of the backends that could be queried at
   start-up, each once *)
Theorem core_schemes_exact P mx log l :
  run P mx OCoreSchemes = (log, Ok (VSchemes l)) ->
  log = [] /\ NoDup l /\
  forall s, In s l <-> exists i b, nth_error P i = Some b /\ b_info_ok b = true /\ In s (b_schemes b).
Proof.
  unfold run. destruct (mk_backends P) as [T|e|] eqn:E; try discriminate.
  cbn. intros [= <- <-]. split; [reflexivity|]. split; [apply mk_backends_ok_iff; eauto|].
  intros s. unfold live_schemes. rewrite in_flat_map. split.
  - intros (b & Hb & Hs). apply In_nth_error in Hb. destruct Hb as [i Hi].
    destruct (b_info_ok b) eqn:Eo; [|contradiction]. eauto.
  - intros (i & b & Hi & Ho & Hs). exists b. split; [eapply nth_error_In; eassumption|now rewrite Ho].
Qed.

(* a backend written as a mopidy.backend.Backend subclass is routed by the providers it sets:
   its schemes go to the library table iff a library provider is set (whether or not it can
   play), to the browse table iff that library has a root directory, to the playlists table
   iff a playlists provider is set *)
Theorem provider_presence_is_routed P T i ss pv answer s :
  mk_backends P = Ok T -> nth_error P i = Some (backend_of ss pv answer) -> In s ss ->
  (tget (t_lib T) s = Some i <-> pv_library pv <> None) /\
  (tget (t_browse T) s = Some i <-> exists r, pv_library pv = Some (Some r)) /\
  (tget (t_playlists T) s = Some i <-> pv_playlists pv = true) /\
  (tget (t_playback T) s = Some i <-> pv_playback pv = true).
Proof.
  intros HT Hn Hs.
  assert (G : forall flag t, (forall s0 i0, tget t s0 = Some i0 <-> owns flag P i0 s0) ->
                             (tget t s = Some i <-> flag (backend_of ss pv answer) = true)).
  { intros flag t Ht. rewrite Ht. unfold owns. split.
    - intros (b & Hb & _ & Hf & _). congruence.
    - intros Hf. exists (backend_of ss pv answer). auto. }
  repeat split.
  - intros H. apply (G b_lib _ (tget_owner_lib P T HT)) in H. cbn in H. unfold has_library in H.
    destruct (pv_library pv); congruence.
  - intros H. apply (G b_lib _ (tget_owner_lib P T HT)). cbn. unfold has_library. destruct (pv_library pv); congruence.
  - intros H. apply (G b_browse _ (tget_owner_browse P T HT)) in H. cbn in H. unfold has_library_browse in H.
    destruct (pv_library pv) as [[r|]|]; try discriminate. eauto.
  - intros [r H]. apply (G b_browse _ (tget_owner_browse P T HT)). cbn. unfold has_library_browse. now rewrite H.
  - intros H. now apply (G b_playlists _ (tget_owner_playlists P T HT)) in H.
  - intros H. now apply (G b_playlists _ (tget_owner_playlists P T HT)).
  - intros H. now apply (G b_playback _ (tget_owner_playback P T HT)) in H.
  - intros H. now apply (G b_playback _ (tget_owner_playback P T HT)).
Qed.
