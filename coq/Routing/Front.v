(* The front door of the core API: the caller's raw (possibly ill-typed) arguments go through
   mopidy/internal/validation.py before anything is routed.  raw_op is a request with raw
   Python arguments; validate mirrors the argument handling at the top of each controller
   method (library.py, playlists.py, mixer.py) and yields the typed request of Model.v or the
   exception the caller gets.  run_raw = start-up + validate + the typed request.

   URI strings become the (scheme id, string id) pairs of Model.v through an injective
   numbering enc of strings (no interning oracle): uri_of s = (enc (scheme_of s), enc s).
   The enumerated query / field tokens of Model.v are abbreviations of concrete Python values
   (squery_val, field_val); their validity is what Validation.check_query / check_choice
   compute on those values (Proofs_Front). *)
From Coq Require Import ZArith List Bool.
From Common Require Import Res Str.
From Routing Require Import Model Scheme Validation.
Import ListNotations.
Open Scope Z_scope.

(* validation.SEARCH_FIELDS.keys(), sorted: album albumartist any artist comment composer date disc_no genre musicbrainz_albumid musicbrainz_artistid musicbrainz_trackid performer track_name track_no uri *)
Definition search_fields : list str :=
  [[97; 108; 98; 117; 109]; [97; 108; 98; 117; 109; 97; 114; 116; 105; 115; 116]; [97; 110; 121]; [97; 114; 116; 105; 115; 116]; [99; 111; 109; 109; 101; 110; 116]; [99; 111; 109; 112; 111; 115; 101; 114]; [100; 97; 116; 101]; [100; 105; 115; 99; 95; 110; 111]; [103; 101; 110; 114; 101]; [109; 117; 115; 105; 99; 98; 114; 97; 105; 110; 122; 95; 97; 108; 98; 117; 109; 105; 100]; [109; 117; 115; 105; 99; 98; 114; 97; 105; 110; 122; 95; 97; 114; 116; 105; 115; 116; 105; 100]; [109; 117; 115; 105; 99; 98; 114; 97; 105; 110; 122; 95; 116; 114; 97; 99; 107; 105; 100]; [112; 101; 114; 102; 111; 114; 109; 101; 114]; [116; 114; 97; 99; 107; 95; 110; 97; 109; 101]; [116; 114; 97; 99; 107; 95; 110; 111]; [117; 114; 105]].

(* validation.DISTINCT_FIELDS (name, int-typed?), sorted: album:str albumartist:str artist:str comment:str composer:str date:str disc_no:int genre:str musicbrainz_albumid:str musicbrainz_artistid:str musicbrainz_trackid:str performer:str track_name:str track_no:int uri:str *)
Definition distinct_field_table : list (str * bool) :=
  [([97; 108; 98; 117; 109], false); ([97; 108; 98; 117; 109; 97; 114; 116; 105; 115; 116], false); ([97; 114; 116; 105; 115; 116], false); ([99; 111; 109; 109; 101; 110; 116], false); ([99; 111; 109; 112; 111; 115; 101; 114], false); ([100; 97; 116; 101], false); ([100; 105; 115; 99; 95; 110; 111], true); ([103; 101; 110; 114; 101], false); ([109; 117; 115; 105; 99; 98; 114; 97; 105; 110; 122; 95; 97; 108; 98; 117; 109; 105; 100], false); ([109; 117; 115; 105; 99; 98; 114; 97; 105; 110; 122; 95; 97; 114; 116; 105; 115; 116; 105; 100], false); ([109; 117; 115; 105; 99; 98; 114; 97; 105; 110; 122; 95; 116; 114; 97; 99; 107; 105; 100], false); ([112; 101; 114; 102; 111; 114; 109; 101; 114], false); ([116; 114; 97; 99; 107; 95; 110; 97; 109; 101], false); ([116; 114; 97; 99; 107; 95; 110; 111], true); ([117; 114; 105], false)].

Definition S_track : str := [116; 114; 97; 99; 107].  (* 'track' *)
Definition S_track_name : str := [116; 114; 97; 99; 107; 95; 110; 97; 109; 101].  (* 'track_name' *)
Definition S_artist : str := [97; 114; 116; 105; 115; 116].  (* 'artist' *)
Definition S_track_no : str := [116; 114; 97; 99; 107; 95; 110; 111].  (* 'track_no' *)
Definition S_bogus : str := [98; 111; 103; 117; 115].  (* 'bogus' *)
Definition S_any : str := [97; 110; 121].  (* 'any' *)
Definition S_album : str := [97; 108; 98; 117; 109].  (* 'album' *)
Definition S_x : str := [120].  (* 'x' *)
Definition S_y : str := [121].  (* 'y' *)
Definition S_z : str := [122].  (* 'z' *)
Definition S_blank : str := [32].  (* ' ' *)

(* ---- strings as numbers: base-1114113 positional, digits c+1 (injective on code points) *)
Definition ENC_BASE : Z := 1114113.
Definition enc (s : str) : Z := fold_left (fun acc c => acc * ENC_BASE + (c + 1)) s 0.
Definition uri_of (s : str) : uri := (enc (scheme_of s), enc s).
Definition code_point (c : Z) : Prop := 0 <= c < 1114112.

(* ---- the enumerated tokens of Model.v as Python values *)
Definition squery_val (q : squery) : pyval :=
  match q with
  | SQEmpty => PDict []
  | SQGood => PDict [(PStr S_any, PList [PStr S_x])]
  | SQGood2 => PDict [(PStr S_artist, PList [PStr S_y]); (PStr S_album, PList [PStr S_z])]
  | SQStr => PDict [(PStr S_any, PStr S_x)]
  | SQBad => PDict [(PStr S_bogus, PList [PStr S_x])]
  | SQBlank => PDict [(PStr S_any, PList [PStr S_blank])]
  end.

(* library._normalize_query: a str value becomes a one-element list *)
Definition normalize_query (v : pyval) : pyval :=
  match v with
  | PDict items => PDict (map (fun it => match snd it with PStr s => (fst it, PList [PStr s]) | _ => it end) items)
  | _ => v
  end.

Definition field_val (f : field) : str :=
  match f with FStr => S_artist | FInt => S_track_no | FTrack => S_track | FTrackName => S_track_name | FBogus => S_bogus end.

Definition distinct_fields : list str := map fst distinct_field_table.

Fixpoint assoc_str (s : str) (t : list (str * bool)) : option bool :=
  match t with [] => None | (k, v) :: r => if str_eqb s k then Some v else assoc_str s r end.

(* the field argument of get_distinct: `field == "track"` is special-cased, everything else
   goes through check_choice(field, DISTINCT_FIELDS.keys()); the typed request only records
   the class of the field (str / int), so every accepted str-typed (int-typed) field other
   than track_name is represented by FStr (FInt) *)
Definition classify_field (v : pyval) : res kind field :=
  match v with
  | PStr s =>
      if str_eqb s S_track then Ok FTrack
      else match check_choice v distinct_fields with
           | Ok _ => if str_eqb s S_track_name then Ok FTrackName
                     else match assoc_str s distinct_field_table with Some true => Ok FInt | _ => Ok FStr end
           | Raise k => Raise k
           | Diverge => Diverge
           end
  | _ => match check_choice v distinct_fields with
         | Ok _ => Raise KValidation      (* unreachable: only a str can be a member *)
         | Raise k => Raise k
         | Diverge => Diverge
         end
  end.

(* the URIs a validated collection argument denotes *)
Definition elems_uris (v : pyval) : list uri :=
  match iter_elems v with
  | Some l => flat_map (fun x => match x with PStr s => [uri_of s] | _ => [] end) l
  | None => []
  end.

(* bytes.strip() leaves nothing *)
Definition bytes_blank (s : list Z) : bool :=
  forallb (fun c => (c =? 32) || ((9 <=? c) && (c <=? 13))) s.

Inductive raw_op :=
| RLookup (uris : pyval)
| RImages (uris : pyval)
| RSearch (q : squery) (uris : pyval) (exact : pyval)
| RBrowse (uri : pyval)
| RDistinct (field : pyval) (q : option squery)
| RRefresh (uri : pyval)
| RGetItems (uri : pyval)
| RDelete (uri : pyval)
| RSetVolume (v : pyval)
| RSetMute (m : pyval).

Definition vbind {A} (r : vres) (k : res kind A) : res kind A :=
  match r with Ok _ => k | Raise e => Raise e | Diverge => Diverge end.

Definition validate (r : raw_op) : res kind op :=
  match r with
  | RLookup v => vbind (check_uris v) (Ok (OLookup (elems_uris v)))
  | RImages v => vbind (check_uris v) (Ok (OImages (elems_uris v)))
  | RSearch q us ex =>
      (* normalise; check_uris unless None; check_query; check_boolean *)
      vbind (match us with PNone => vok | _ => check_uris us end)
        (vbind (check_query (normalize_query (squery_val q)) search_fields)
           (match ex with
            | PBool b => Ok (OSearch q (match us with PNone => None | _ => Some (elems_uris us) end) b)
            | _ => Raise KValidation
            end))
  | RBrowse v =>
      match v with
      | PNone => Ok (OBrowse BNone)
      | PStr s => match strip s with
                  | [] => Ok (OBrowse BBlank)
                  | _ => vbind (check_uri v) (Ok (OBrowse (BUri (uri_of s))))
                  end
      | PBytes s => if bytes_blank s then Ok (OBrowse BBlank) else Raise KValidation
      | _ => Raise KException                      (* AttributeError: no .strip() *)
      end
  | RDistinct fv q =>
      match classify_field fv with
      | Ok f => vbind (match q with Some q => check_query (squery_val q) search_fields | None => vok end)
                      (Ok (ODistinct f q))
      | Raise k => Raise k
      | Diverge => Diverge
      end
  | RRefresh v =>
      match v with
      | PNone => Ok (ORefresh None)
      | _ => vbind (check_uri v) (match v with PStr s => Ok (ORefresh (Some (uri_of s))) | _ => Raise KValidation end)
      end
  | RGetItems v => vbind (check_uri v) (match v with PStr s => Ok (OGetItems (uri_of s)) | _ => Raise KValidation end)
  | RDelete v => vbind (check_uri v) (match v with PStr s => Ok (ODelete (uri_of s)) | _ => Raise KValidation end)
  | RSetVolume v =>
      vbind (check_integer v (Some 0) (Some 100))
            (match int_value v with Some z => Ok (OSetVolume z) | None => Raise KValidation end)
  | RSetMute v => match v with PBool b => Ok (OSetMute b) | _ => Raise KValidation end
  end.

Definition run_raw (P : list backend) (mx : option mixer) (r : raw_op) : obs :=
  match mk_backends P with
  | Ok T => match validate r with
            | Ok o => run_op T P mx o
            | Raise k => ([], Raise k)
            | Diverge => ([], Diverge)
            end
  | Raise e => ([], Raise e)
  | Diverge => ([], Diverge)
  end.

(* ------------------------------------------------------------------ backend answers as Python values
   The routing model decides what it accepts from a backend with its own small tests
   (entry_is, as_instances, item_ok, class of RVal, ranges).  The functions below render a
   scripted answer as the Python value the fake backend returns, so that those tests can be
   compared with what the validation layer computes on that value (Proofs_Answers).
   key_text gives the text of a URI id (the numbering is injective, any left inverse will do). *)
Definition cls_ty (c : cls) : pycls := match c with CStr => TStr | CInt => TInt | c => TModel c end.

Definition entry_val (key_text : uri -> str) (e : entry) : pyval :=
  match e with
  | EJunk => PJunk
  | EObj CStr id _ => PStr [id]
  | EObj CInt id _ => PInt id
  | EObj c id _ => PObj c id
  | EUriStr u => PStr (key_text u)
  end.

Definition mval_val (key_text : uri -> str) (v : mval) : pyval :=
  match v with MBad => PNone | MList l => PList (map (entry_val key_text) l) end.

Definition resp_val (key_text : uri -> str) (r : resp) : pyval :=
  match r with
  | RRaise _ | RNone => PNone
  | RWrong => PStr [97; 98; 99]
  | RMap items => PDict (map (fun it => (PStr (key_text (fst it)), mval_val key_text (snd it))) items)
  | RList l => PList (map (entry_val key_text) l)
  | RVal CStr id => PStr [id]
  | RVal CInt id => PInt id
  | RVal c id => PObj c id
  | RBool b => PBool b
  | RInt z => PInt z
  end.
