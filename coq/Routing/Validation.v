(* Model of mopidy/internal/validation.py: the check_* functions the core applies to the
   caller's arguments and to every value a backend returns.

   A Python value is a pyval.  What the checks look at: isinstance against a handful of
   classes, whether a value is a re-iterable non-string collection and what iterating it
   yields (_check_iterable + all(...)), integer bounds, membership in a collection of
   strings, str.strip(), urlparse(...).scheme (Scheme.scheme_of).
   Each function returns Ok tt or Raise kind (ValidationError = KValidation; `x in dict_keys`
   with an unhashable x raises TypeError = KType). *)
From Coq Require Import ZArith List Bool.
From Common Require Import Res Str.
From Routing Require Import Model Scheme.
Import ListNotations.
Open Scope Z_scope.

Inductive pyval :=
| PNone
| PBool (b : bool)
| PInt (z : Z)
| PFloat (id : Z)
| PStr (s : str)
| PBytes (s : list Z)
| PList (l : list pyval)
| PTuple (l : list pyval)
| PSet (l : list pyval)                      (* elements hashable *)
| PDict (items : list (pyval * pyval))       (* keys hashable *)
| PIter (l : list pyval)                     (* an iterator / generator: iter(x) is x *)
| PObj (c : cls) (id : Z)                    (* an instance of a mopidy model class *)
| PJunk.                                     (* object() *)

(* the classes the core passes to check_instance(s) *)
Inductive pycls := TBool | TInt | TStr | TMapping | TModel (c : cls).

Definition isinstance (t : pycls) (v : pyval) : bool :=
  match t, v with
  | TBool, PBool _ => true
  | TInt, PInt _ | TInt, PBool _ => true            (* bool is a subclass of int *)
  | TStr, PStr _ => true
  | TMapping, PDict _ => true
  | TModel c, PObj c' _ => cls_eqb c c'
  | _, _ => false
  end.

(* what `for x in v` yields, for the values that pass _check_iterable: not a str, an
   Iterable, and not its own iterator.  pydantic models are iterable (they yield
   (field name, value) tuples); bytes yield ints; dicts yield their keys. *)
Definition iter_elems (v : pyval) : option (list pyval) :=
  match v with
  | PBytes s => Some (map PInt s)
  | PList l | PTuple l | PSet l => Some l
  | PDict items => Some (map fst items)
  | PObj _ _ => Some [PTuple []]
  | _ => None                                        (* None, bool, int, float, str, iterator, object() *)
  end.

Definition vres := res kind unit.
Definition vok : vres := Ok tt.
Definition vfail : vres := Raise KValidation.

Definition check_iterable (v : pyval) : vres :=
  match iter_elems v with Some _ => vok | None => vfail end.

Definition check_instance (v : pyval) (t : pycls) : vres := if isinstance t v then vok else vfail.
Definition check_boolean (v : pyval) : vres := check_instance v TBool.

Definition check_instances (v : pyval) (t : pycls) : vres :=
  match iter_elems v with
  | None => vfail
  | Some l => if forallb (isinstance t) l then vok else vfail
  end.

Definition int_value (v : pyval) : option Z :=
  match v with PInt z => Some z | PBool b => Some (if b then 1 else 0) | _ => None end.

Definition check_integer (v : pyval) (lo hi : option Z) : vres :=
  match int_value v with
  | None => vfail
  | Some z =>
      if match lo with Some m => z <? m | None => false end then vfail
      else if match hi with Some m => m <? z | None => false end then vfail
      else vok
  end.

(* hash(v) works: lists, sets and dicts are unhashable, a tuple is iff its elements are *)
Fixpoint hashable (v : pyval) : bool :=
  match v with
  | PList _ | PSet _ | PDict _ => false
  | PTuple l => forallb hashable l
  | _ => true
  end.

(* `arg not in choices` for a collection of strings looked up by hash (dict keys, set) *)
Definition check_choice (v : pyval) (choices : list str) : vres :=
  if negb (hashable v) then Raise KType
  else match v with
       | PStr s => if mem_str s choices then vok else vfail
       | _ => vfail
       end.

(* _check_query_value: a str with something left after strip() *)
Definition query_value_ok (v : pyval) : bool :=
  match v with
  | PStr s => match strip s with [] => false | _ => true end
  | _ => false
  end.

Definition check_query_item (fields : list str) (it : pyval * pyval) : vres :=
  match check_choice (fst it) fields with
  | Ok _ =>
      match iter_elems (snd it) with
      | None => vfail
      | Some l => if forallb query_value_ok l then vok else vfail
      end
  | r => r
  end.

Fixpoint check_all {A} (f : A -> vres) (l : list A) : vres :=
  match l with
  | [] => vok
  | x :: r => match f x with Ok _ => check_all f r | e => e end
  end.

Definition check_query (v : pyval) (fields : list str) : vres :=
  match v with
  | PDict items => check_all (check_query_item fields) items
  | _ => vfail
  end.

Definition check_uri (v : pyval) : vres :=
  match v with
  | PStr s => match scheme_of s with [] => vfail | _ => vok end
  | _ => vfail
  end.

Definition check_uris (v : pyval) : vres :=
  match iter_elems v with
  | None => vfail
  | Some l => check_all check_uri l
  end.

(* one call of the validation layer, for the correspondence *)
Inductive vcall :=
| VInstance (v : pyval) (t : pycls)
| VInstances (v : pyval) (t : pycls)
| VBoolean (v : pyval)
| VInteger (v : pyval) (lo hi : option Z)
| VChoice (v : pyval) (choices : list str)
| VQuery (v : pyval) (fields : list str)
| VUri (v : pyval)
| VUris (v : pyval)
| VIterable (v : pyval).

Definition vrun (c : vcall) : vres :=
  match c with
  | VInstance v t => check_instance v t
  | VInstances v t => check_instances v t
  | VBoolean v => check_boolean v
  | VInteger v lo hi => check_integer v lo hi
  | VChoice v ch => check_choice v ch
  | VQuery v f => check_query v f
  | VUri v => check_uri v
  | VUris v => check_uris v
  | VIterable v => check_iterable v
  end.

(* expected: 0 = returned, 1 = ValidationError, 2 = TypeError *)
Definition vcode (r : vres) : Z :=
  match r with Ok _ => 0 | Raise KValidation => 1 | Raise KType => 2 | _ => 3 end.
Definition vcase_ok (c : vcall * Z) : bool := vcode (vrun (fst c)) =? snd c.

(* ------------------------------------------------------------------ the type predicates the checks are
   sound and complete for (declarative; nothing computed; proofs in Proofs_Validation.v) *)

Definition has_class (t : pycls) (v : pyval) : Prop :=
  match t with
  | TBool => exists b, v = PBool b
  | TInt => (exists z, v = PInt z) \/ (exists b, v = PBool b)
  | TStr => exists s, v = PStr s
  | TMapping => exists items, v = PDict items
  | TModel c => exists id, v = PObj c id
  end.

(* v is a re-iterable collection that is not a string, and iterating it yields l *)
Inductive yields : pyval -> list pyval -> Prop :=
| Y_bytes s : yields (PBytes s) (map PInt s)
| Y_list l : yields (PList l) l
| Y_tuple l : yields (PTuple l) l
| Y_set l : yields (PSet l) l
| Y_dict items : yields (PDict items) (map fst items)
| Y_model c id : yields (PObj c id) [PTuple []].

Definition integer_value (v : pyval) (z : Z) : Prop :=
  v = PInt z \/ (v = PBool true /\ z = 1) \/ (v = PBool false /\ z = 0).

Definition valid_uri (v : pyval) : Prop := exists s, v = PStr s /\ scheme_of s <> [].
Definition nonblank_str (v : pyval) : Prop := exists s, v = PStr s /\ strip s <> [].

Definition valid_query_item (fields : list str) (it : pyval * pyval) : Prop :=
  (exists s, fst it = PStr s /\ In s fields) /\ exists l, yields (snd it) l /\ Forall nonblank_str l.

