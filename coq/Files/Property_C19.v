(* C19 property theorems.  Nothing but statements, `exact`, and Print Assumptions.
   Models: M3u.v, AtomicFile.v; proofs: Proofs_M3u.v, Proofs_Atomic.v. *)
From Coq Require Import ZArith List Bool.
From Common Require Import Str Res.
From Files Require Import AtomicFile Proofs_Atomic Proofs_SaveRename M3u Proofs_M3u.
Import ListNotations.
Open Scope Z_scope.

(* T1: load_items . dump_items = id on line-safe items (no CR/LF, URI equal to its strip,
   with a scheme, not starting with '#', accepted by urlsplit; name absent, or non-empty
   without trailing white space), for ANY number of items, any oracle tables. *)
Theorem C19_dump_load_inverse : forall raises locals items,
  Forall line_safe items -> Forall (fun it => mem_str (fst it) raises = false) items ->
  load_items raises locals (dump_items items) = Ok items.
Proof. exact dump_load_inverse_lemma. Qed.
Print Assumptions C19_dump_load_inverse.

(* the boolean the harness evaluates implies the hypothesis of T1 *)
Theorem C19_line_safe_b_sound : forall it, line_safe_b it = true -> line_safe it.
Proof. exact line_safe_b_sound. Qed.
Print Assumptions C19_line_safe_b_sound.

Theorem C19_line_safe_nonvacuous :
  let items := [([100; 117; 109; 109; 121; 58; 97], Some [84; 44; 32; 49]);
                ([102; 105; 108; 101; 58; 47; 47; 47; 120; 32; 121], None);
                ([120; 58], Some [32; 108])] in
  forallb line_safe_b items = true /\
  load_items [] [] (dump_items items) = Ok items /\ length (ulines (dump_items items)) = 6%nat.
Proof. exact line_safe_nonvacuous. Qed.
Print Assumptions C19_line_safe_nonvacuous.

(* names: name_from_path (path_from_name n ext) = n with path separators replaced *)
Theorem C19_name_roundtrip : forall n ext,
  n <> [] -> is_ext ext ->
  name_from_path (path_from_name n ext) = repl_sep n /\ suffix (path_from_name n ext) = ext.
Proof. exact name_roundtrip_lemma. Qed.
Print Assumptions C19_name_roundtrip.

Theorem C19_names_have_no_separator : forall n, ~ In SLASH (repl_sep n).
Proof. exact repl_sep_no_slash. Qed.
Print Assumptions C19_names_have_no_separator.

(* the text codecs (errors="replace") for latin-1 and ascii: identity on representable text,
   bytes out; and the whole chain items -> text -> bytes -> text -> items *)
Theorem C19_codec_roundtrip : forall c s,
  forallb (representable c) s = true -> decode_repl c (encode_repl c s) = s.
Proof. exact codec_roundtrip_lemma. Qed.
Print Assumptions C19_codec_roundtrip.

Theorem C19_saved_bytes_load : forall c raises locals items,
  Forall line_safe items -> Forall (fun it => mem_str (fst it) raises = false) items ->
  forallb (representable c) (dump_items items) = true ->
  load_items raises locals (decode_repl c (encode_repl c (dump_items items))) = Ok items.
Proof. exact saved_bytes_load_lemma. Qed.
Print Assumptions C19_saved_bytes_load.

(* path -> URI -> path is the identity at byte level, for every byte string: the
   transcription of urllib.parse.quote_from_bytes / unquote_to_bytes (no longer an oracle) *)
Theorem C19_uri_path_roundtrip : forall bs,
  Forall (fun c => 0 <= c < 256) bs -> unquote (flat_map utf8 (quote_bytes bs)) = bs.
Proof. exact uri_path_roundtrip_lemma. Qed.
Print Assumptions C19_uri_path_roundtrip.

(* lines without a scheme (relative / absolute local paths) are modelled, not an oracle:
   with the table computed by local_ref for the lines of the text, load_items never asks
   for an oracle *)
Theorem C19_local_lines_modelled : forall raises basedir text,
  load_items raises (local_table basedir (ulines text)) text <> Raise LNoOracle.
Proof. exact load_items_model_table_lemma. Qed.
Print Assumptions C19_local_lines_modelled.

(* T2: what save() returns and leaves on disk: the given tracks, the name of the file it
   ended up in, that file holding exactly dump_items(tracks), every other playlist
   untouched, the old name gone after a rename. *)
Theorem C19_save_result : forall f pname tracks d pl d',
  save f pname tracks d = (Some pl, d') -> save_post f pname tracks d pl d'.
Proof. exact save_result_lemma. Qed.
Print Assumptions C19_save_result.

(* ... looking the returned playlist up gives back the same tracks and name ... *)
Theorem C19_save_lookup : forall raises locals f pname tracks d f' n' tr d',
  save f pname tracks d = (Some (f', n', tr), d') ->
  Forall line_safe tracks -> Forall (fun it => mem_str (fst it) raises = false) tracks ->
  lookup raises locals f' d' = Ok (Some (f', n', tracks)).
Proof. exact save_lookup_lemma. Qed.
Print Assumptions C19_save_lookup.

(* ... a renaming save names it as requested (separators replaced), extension kept ... *)
Theorem C19_save_rename_name : forall f c n tracks d f' n' tr d',
  save f (Some (c :: n)) tracks d = (Some (f', n', tr), d') ->
  str_eqb (c :: n) (name_from_path f) = false ->
  strip (c :: n) <> [] -> is_ext (suffix f) ->
  n' = repl_sep (strip (c :: n)) /\ suffix f' = suffix f.
Proof. exact save_name_lemma. Qed.
Print Assumptions C19_save_rename_name.

(* ... and as_list shows it exactly once. *)
Theorem C19_save_listed_once : forall f pname tracks d f' n' tr d',
  save f pname tracks d = (Some (f', n', tr), d') ->
  NoDup (keys d) -> listed_b f' = true ->
  length (filter (fun e => str_eqb (fst e) f') (as_list d')) = 1%nat.
Proof. exact save_listed_once_lemma. Qed.
Print Assumptions C19_save_listed_once.

Theorem C19_create_result : forall ext name d pl d',
  create ext name d = (Some pl, d') ->
  let '(f, n, tr) := pl in
  f = path_from_name (strip name) ext /\ n = name_from_path f /\ tr = [] /\
  assoc_str f d' = Some [] /\ (forall g, g <> f -> assoc_str g d' = assoc_str g d) /\
  (NoDup (keys d) -> NoDup (keys d')) /\
  (strip name <> [] -> is_ext ext -> n = repl_sep (strip name) /\ listed_b f = true).
Proof. exact create_result_lemma. Qed.
Print Assumptions C19_create_result.

(* delete removes exactly that playlist *)
Theorem C19_delete_exact : forall f d t,
  assoc_str f d = Some t ->
  exists d', delete f d = (true, d') /\ assoc_str f d' = None /\
             (forall g, g <> f -> assoc_str g d' = assoc_str g d) /\
             (NoDup (keys d) -> NoDup (keys d')).
Proof. exact delete_exact_lemma. Qed.
Print Assumptions C19_delete_exact.

Theorem C19_delete_missing : forall f d, assoc_str f d = None -> delete f d = (false, d).
Proof. exact delete_missing_lemma. Qed.
Print Assumptions C19_delete_missing.

(* T3: m3u.playlists.replace() (mkstemp; write through the text wrapper; flush; fsync;
   rename; close) is crash-atomic for every start state, every content and every split. *)
Theorem C19_replace_atomic : forall s0 f tmp target pieces cuts,
  wf s0 -> names s0 tmp = None -> fds s0 f = None -> tmp <> target ->
  let ops := compile no_bufs (replace_uops f tmp target pieces cuts) in
  let new := concat (map fst pieces) in
  crash_atomic s0 ops target (read s0 target) new
  /\ read (run ops s0) target = Some new
  /\ names (run ops s0) tmp = None.
Proof. exact replace_atomic_lemma. Qed.
Print Assumptions C19_replace_atomic.

(* a failure at any call of replace(), then `tempname.unlink()` and the `finally: close`:
   previous content or the new one, no temporary file, nothing else touched *)
Theorem C19_replace_failure_clean : forall s0 f tmp target pieces cuts j aftermath,
  wf s0 -> names s0 tmp = None -> fds s0 f = None -> tmp <> target ->
  forallb quiet_b aftermath = true ->
  let ops := compile no_bufs (replace_uops f tmp target pieces cuts) in
  let s' := fault_run ops j tmp aftermath s0 in
  (read s' target = read s0 target \/ read s' target = Some (concat (map fst pieces)))
  /\ names s' tmp = None
  /\ (forall p, p <> target -> p <> tmp -> names s' p = names s0 p)
  /\ (forall i, i < next s0 -> data s' i = data s0 i).
Proof. exact replace_failure_clean_lemma. Qed.
Print Assumptions C19_replace_failure_clean.

(* T4: save() WITH rename = replace(orig) ; rename orig -> newp.  At every crash point a
   reader finds the untouched old situation, or the complete new content under the old
   name, or the complete new content under the new name with the old name gone -- for every
   start state (a playlist already named newp is replaced atomically as well), every content
   and every split into write calls. *)
Theorem C19_save_rename_atomic : forall s0 f tmp orig newp chunks mid tail tail2,
  wf s0 -> names s0 tmp = None -> fds s0 f = None ->
  tmp <> orig -> newp <> tmp -> newp <> orig ->
  forallb quiet_b mid = true -> forallb quiet_b tail = true -> forallb quiet_b tail2 = true ->
  let ops := save_rename_ops f tmp orig newp chunks mid tail tail2 in
  (forall k : nat, save_rename_good s0 orig newp (concat chunks) (crash ops k s0)) /\
  read (run ops s0) orig = None /\ read (run ops s0) newp = Some (concat chunks) /\
  names (run ops s0) tmp = None.
Proof. exact save_rename_atomic_lemma. Qed.
Print Assumptions C19_save_rename_atomic.

(* the boolean evaluated on the real trace of a renaming save is sound for that predicate *)
Theorem C19_save_rename_check_sound : forall s0 ops orig newp new,
  save_rename_first_bad s0 s0 ops orig newp new 0 = None ->
  forall k : nat, save_rename_good s0 orig newp new (crash ops k s0).
Proof. exact save_rename_first_bad_sound. Qed.
Print Assumptions C19_save_rename_check_sound.

(* the opposite order (move the old file away first, then write the new one) is refuted *)
Theorem C19_rename_first_refuted :
  let s0 := init w_target (Some [1; 2]) in
  let ops := KRename w_target [47; 100; 47; 110] :: kprotocol 3 w_tmp [47; 100; 47; 110] [[7; 8]] [KFsync 3] [KClose 3] in
  save_rename_first_bad s0 s0 ops w_target [47; 100; 47; 110] [7; 8] 0 = Some 1.
Proof. exact rename_first_refuted_lemma. Qed.
Print Assumptions C19_rename_first_refuted.

(* a temporary file whose name has no dot (mkstemp's default names) is invisible to as_list:
   a save in progress or interrupted by a crash never shows a ghost playlist *)
Theorem C19_temp_name_not_listed : forall s, ~ In DOT s -> listed_b s = false.
Proof. exact no_dot_not_listed_lemma. Qed.
Print Assumptions C19_temp_name_not_listed.

Theorem C19_as_list_ignores_temp : forall d tmp txt,
  ~ In DOT tmp -> as_list ((tmp, txt) :: d) = as_list d.
Proof. exact as_list_ignores_temp_lemma. Qed.
Print Assumptions C19_as_list_ignores_temp.

(* the rename-on-save before the fix cut the name at its last dot *)
Theorem C19_save_old_refuted :
  exists name,
    let f := [112; 46; 109; 51; 117; 56] in
    match fst (save_old f (Some name) [] [(f, [])]) with
    | Some (_, n', _) => n' <> repl_sep name /\ n' = [77; 121]
    | None => False
    end /\
    match fst (save f (Some name) [] [(f, [])]) with
    | Some (_, n', _) => n' = repl_sep name
    | None => False
    end.
Proof. exact save_old_refuted_lemma. Qed.
Print Assumptions C19_save_old_refuted.
