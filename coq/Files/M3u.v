(* Files/M3u.v -- model of mopidy.m3u.translator (dump_items, load_items, path_from_name,
   name_from_path) and of M3UPlaylistsProvider (create/save/lookup/as_list/delete) over a
   flat playlists directory.  Strings are lists of code points.

   Oracles (modelled, not verified): the text codec (`errors="replace"`), fsencode/fsdecode
   and urllib quote/unquote (the model works on file names, the harness applies the real
   uri_to_path / path_to_uri), `urlsplit` raising on malformed netlocs (table `raises`),
   conversion of scheme-less lines to file: URIs (table `locals`). *)
From Coq Require Import ZArith List Bool Lia.
From Common Require Import Str Res.
Import ListNotations.
Open Scope Z_scope.

Definition item := (str * option str)%type.     (* uri, name *)

Definition truthy (n : option str) : bool :=
  match n with Some (_ :: _) => true | _ => false end.

Definition NL : Z := 10.
Definition CR : Z := 13.
Definition HASH : Z := 35.
Definition COMMA : Z := 44.
Definition DOT : Z := 46.
Definition SLASH : Z := 47.
Definition COLON : Z := 58.
Definition BAR : Z := 124.

Definition EXTM3U : str := [35; 69; 88; 84; 77; 51; 85].            (* #EXTM3U *)
Definition EXTINF : str := [35; 69; 88; 84; 73; 78; 70; 58].        (* #EXTINF: *)
Definition EXTINF_PRE : str := EXTINF ++ [45; 49; 44].              (* #EXTINF:-1, *)

(* ------------------------------------------------------------------ dump_items *)

Definition item_lines (it : item) : list str :=
  match it with
  | (u, Some (c :: n)) => [EXTINF_PRE ++ c :: n; u]
  | (u, _) => [u]
  end.

Definition dump_lines (items : list item) : list str :=
  (if existsb (fun it => truthy (snd it)) items then [EXTM3U] else []) ++ flat_map item_lines items.

(* print(..., file=fp) terminates every line with "\n" *)
Definition unlines (ls : list str) : str := flat_map (fun l => l ++ [NL]) ls.
Definition dump_items (items : list item) : str := unlines (dump_lines items).

(* ------------------------------------------------------------------ reading lines *)

(* `for line in fp` in text mode with universal newlines: \n, \r\n and \r end a line.
   (The terminator is dropped here; load_items strips every line anyway.) *)
Fixpoint ulines_aux (cur : str) (s : str) : list str :=
  match s with
  | [] => match cur with [] => [] | _ => [rev cur] end
  | c :: t =>
      if c =? NL then rev cur :: ulines_aux [] t
      else if c =? CR then
        rev cur :: ulines_aux [] (match t with d :: t' => if d =? NL then t' else t | [] => t end)
      else ulines_aux (c :: cur) t
  end.
Definition ulines (s : str) : list str := ulines_aux [] s.

(* line.partition(",")[2] *)
Fixpoint after_comma (s : str) : str :=
  match s with
  | [] => []
  | c :: t => if c =? COMMA then t else after_comma t
  end.

(* urllib.parse.urlsplit(line).scheme != "" (CPython 3.12): lstrip C0 controls and space,
   delete tab/CR/LF, then `i = url.find(':'); i > 0 and url[0] is an ASCII letter and
   every character before the colon is in scheme_chars`. *)
Definition c0_or_space (c : Z) : bool := (0 <=? c) && (c <=? 32).
Fixpoint lstrip_c0 (s : str) : str :=
  match s with
  | c :: t => if c0_or_space c then lstrip_c0 t else s
  | [] => []
  end.
Definition unsafe_url_char (c : Z) : bool := (c =? 9) || (c =? 10) || (c =? 13).
Definition remove_unsafe (s : str) : str := filter (fun c => negb (unsafe_url_char c)) s.
Definition ascii_alpha (c : Z) : bool := ((65 <=? c) && (c <=? 90)) || ((97 <=? c) && (c <=? 122)).
Definition scheme_char (c : Z) : bool :=
  ascii_alpha c || ((48 <=? c) && (c <=? 57)) || (c =? 43) || (c =? 45) || (c =? 46).
Fixpoint scan_scheme (s : str) : bool :=
  match s with
  | [] => false
  | c :: t => if c =? COLON then true else scheme_char c && scan_scheme t
  end.
Definition has_scheme (line : str) : bool :=
  match remove_unsafe (lstrip_c0 line) with
  | c :: t => ascii_alpha c && scan_scheme (c :: t)
  | [] => false
  end.

Inductive lexn := LValueError | LNoOracle.

Fixpoint assoc_str {A} (k : str) (l : list (str * A)) : option A :=
  match l with
  | [] => None
  | (q, v) :: t => if str_eqb k q then Some v else assoc_str k t
  end.

(* translator.load_items; `name` is the pending #EXTINF name.
   raises: stripped lines on which urlsplit raises ValueError (oracle);
   locals: scheme-less stripped line -> (file: URI, default name) (oracle). *)
Fixpoint load_lines (raises : list str) (locals : list (str * item)) (name : option str)
         (ls : list str) : res lexn (list item) :=
  match ls with
  | [] => Ok []
  | raw :: t =>
      match strip raw with
      | [] => load_lines raises locals name t
      | c :: l =>
          let line := c :: l in
          if c =? HASH then
            load_lines raises locals
                       (if starts_with EXTINF line then Some (after_comma line) else name) t
          else if mem_str line raises then Raise LValueError
          else if has_scheme line then
            rbind (load_lines raises locals None t) (fun r => Ok ((line, name) :: r))
          else
            match assoc_str line locals with
            | Some (uri, dname) =>
                rbind (load_lines raises locals None t)
                      (fun r => Ok ((uri, if truthy name then name else dname) :: r))
            | None => Raise LNoOracle
            end
      end
  end.

Definition load_items (raises : list str) (locals : list (str * item)) (text : str) : res lexn (list item) :=
  load_lines raises locals None (ulines text).

(* Hypotheses of the round trip ("names and URIs that fit on one line"). *)
Definition no_eol (s : str) : Prop := ~ In NL s /\ ~ In CR s.
Definition line_safe_uri (u : str) : Prop :=
  no_eol u /\ strip u = u /\ has_scheme u = true /\ (exists c t, u = c :: t /\ c <> HASH).
Definition line_safe_name (n : option str) : Prop :=
  match n with
  | None => True
  | Some s => s <> [] /\ no_eol s /\ rstrip s = s
  end.
Definition line_safe (it : item) : Prop := line_safe_uri (fst it) /\ line_safe_name (snd it).

(* the same as booleans, for the harness-side monitor and non-vacuity examples *)
Definition no_eol_b (s : str) : bool := forallb (fun c => negb ((c =? NL) || (c =? CR))) s.
Definition line_safe_b (it : item) : bool :=
  let u := fst it in
  no_eol_b u && str_eqb (strip u) u && has_scheme u
  && match u with c :: _ => negb (c =? HASH) | [] => false end
  && match snd it with
     | None => true
     | Some s => match s with [] => false | _ => no_eol_b s && str_eqb (rstrip s) s end
     end.

(* ------------------------------------------------------------------ names and paths *)

Definition M3U : str := [46; 109; 51; 117].          (* .m3u  *)
Definition M3U8 : str := [46; 109; 51; 117; 56].     (* .m3u8 *)

Definition repl_sep (n : str) : str := map (fun c => if c =? SLASH then BAR else c) n.

(* translator.path_from_name(name, ext): name.replace(os.sep, "|") + ext *)
Definition path_from_name (n ext : str) : str := repl_sep n ++ ext.

(* pathlib: suffix = name[i:] where i = name.rfind('.') if 0 < i < len(name)-1 else '' *)
Fixpoint span_dot (r acc : str) : option (str * str) :=
  match r with
  | [] => None
  | c :: t => if c =? DOT then Some (acc, t) else span_dot t (c :: acc)
  end.
Definition split_suffix (name : str) : str * str :=      (* (stem, suffix) *)
  match span_dot (rev name) [] with
  | Some (e :: ext, b :: before_rev) => (rev (b :: before_rev), DOT :: e :: ext)
  | _ => (name, [])
  end.
Definition stem (f : str) : str := fst (split_suffix f).
Definition suffix (f : str) : str := snd (split_suffix f).

(* translator.name_from_path for a single-component path *)
Definition name_from_path (f : str) : str := stem f.

(* PurePath.with_suffix (the code before the fix used it for rename-on-save) *)
Definition with_suffix (f sfx : str) : str := stem f ++ sfx.

Definition utf8_len (c : Z) : Z := if c <? 128 then 1 else if c <? 2048 then 2 else if c <? 65536 then 3 else 4.
Definition byte_len (s : str) : Z := fold_right (fun c n => utf8_len c + n) 0 s.
Definition name_too_long (f : str) : bool := 255 <? byte_len f.        (* NAME_MAX *)

(* urllib.parse.unquote_to_bytes on a str: UTF-8 encode, then %XX -> byte *)
Definition utf8 (c : Z) : list Z :=
  if c <? 128 then [c]
  else if c <? 2048 then [192 + c / 64; 128 + c mod 64]
  else if c <? 65536 then [224 + c / 4096; 128 + (c / 64) mod 64; 128 + c mod 64]
  else [240 + c / 262144; 128 + (c / 4096) mod 64; 128 + (c / 64) mod 64; 128 + c mod 64].
Definition hexval (c : Z) : option Z :=
  if (48 <=? c) && (c <=? 57) then Some (c - 48)
  else if (65 <=? c) && (c <=? 70) then Some (c - 55)
  else if (97 <=? c) && (c <=? 102) then Some (c - 87)
  else None.
Fixpoint unquote (s : list Z) : list Z :=
  match s with
  | [] => []
  | c :: t =>
      if c =? 37 then
        match t with
        | a :: t' =>
            match t' with
            | b :: t'' =>
                match hexval a, hexval b with
                | Some x, Some y => (16 * x + y) :: unquote t''
                | _, _ => c :: unquote t
                end
            | [] => c :: unquote t
            end
        | [] => [c]
        end
      else c :: unquote t
  end.

(* ------------------------------------------------------------------ uri <-> path, local lines *)

(* urllib.parse.quote_from_bytes(bs)  (safe = "/") *)
Definition always_safe (c : Z) : bool :=
  ascii_alpha c || ((48 <=? c) && (c <=? 57)) || (c =? 95) || (c =? 46) || (c =? 45) || (c =? 126).
Definition hexdigit (d : Z) : Z := if d <? 10 then 48 + d else 55 + d.
Definition quote_byte (c : Z) : list Z :=
  if always_safe c || (c =? SLASH) then [c] else [37; hexdigit (c / 16); hexdigit (c mod 16)].
Definition quote_bytes (bs : list Z) : list Z := flat_map quote_byte bs.
Definition utf8_str (s : str) : list Z := flat_map utf8 s.

(* pathlib.PurePosixPath(s): components without "" and ".", absolute?, the "//" root *)
Definition is_dot_comp (c : str) : bool := match c with [] => true | [46] => true | _ => false end.
Definition pparts (s : str) : list str := filter (fun c => negb (is_dot_comp c)) (split1 SLASH s).
Definition two_slashes (s : str) : bool :=
  match s with
  | 47 :: 47 :: 47 :: _ => false
  | 47 :: 47 :: _ => true
  | _ => false
  end.
Definition is_abs (s : str) : bool := match s with 47 :: _ => true | _ => false end.

(* os.path.normpath on the components of an absolute path: ".." pops, and is dropped at the root *)
Fixpoint norm_comps (acc : list str) (cs : list str) : list str :=
  match cs with
  | [] => rev acc
  | c :: t => if str_eqb c [46; 46] then norm_comps (match acc with [] => [] | _ :: a => a end) t
              else norm_comps (c :: acc) t
  end.

Definition DOTSTR : str := [46].
Definition FILE_SCHEME : str := [102; 105; 108; 101; 58].        (* file: *)

(* load_items for a line without scheme: path = basedir / line ;
   uri = path_to_uri(path, scheme="file") ; default name = name_from_path(path).
   basedir is absolute (expand_path resolves it); text without lone surrogates. *)
Definition local_ref (basedir line : str) : item :=
  let whole := if is_abs line then line else basedir ++ [SLASH] ++ line in
  let parts := pparts whole in
  let root := if two_slashes whole then [SLASH; SLASH] else [SLASH] in
  let normed := root ++ join [SLASH] (norm_comps [] parts) in
  let quoted := quote_bytes (utf8_str normed) in
  (* urlunsplit(("file", None, quoted, None, None)) *)
  let uri := if two_slashes whole then FILE_SCHEME ++ quoted
             else FILE_SCHEME ++ [SLASH; SLASH] ++ quoted in
  let nm := match rev parts with [] => DOTSTR | l :: _ => stem l end in
  (uri, Some nm).

(* the oracle table `locals` computed by the model for the lines of a text *)
Definition local_table (basedir : str) (ls : list str) : list (str * item) :=
  map (fun raw => (strip raw, local_ref basedir (strip raw))) ls.

(* ------------------------------------------------------------------ text codecs with errors="replace"
   (.m3u files use the configured default_encoding; latin-1 and ascii are modelled, utf-8 and
   the other code pages remain oracles) *)
Inductive codec := Latin1 | Ascii.
Definition representable (c : codec) (x : Z) : bool :=
  match c with Latin1 => (0 <=? x) && (x <? 256) | Ascii => (0 <=? x) && (x <? 128) end.
(* str.encode(enc, "replace"): one "?" per character that has no byte *)
Definition encode_repl (c : codec) (s : str) : list Z :=
  map (fun x => if representable c x then x else 63) s.
(* bytes.decode(enc, "replace"): U+FFFD per undecodable byte *)
Definition decode_repl (c : codec) (bs : list Z) : str :=
  map (fun b => match c with Latin1 => b | Ascii => if b <? 128 then b else 65533 end) bs.

(* ------------------------------------------------------------------ provider over a flat directory *)

Definition pdir := list (str * str).          (* file name -> text; keys unique *)

Fixpoint pd_remove (f : str) (d : pdir) : pdir :=
  match d with
  | [] => []
  | (g, t) :: r => if str_eqb g f then pd_remove f r else (g, t) :: pd_remove f r
  end.
Definition pd_write (d : pdir) (f txt : str) : pdir := (f, txt) :: pd_remove f d.
Definition pd_rename (d : pdir) (a b : str) : pdir :=
  match assoc_str a d with
  | Some txt => if str_eqb a b then d else (b, txt) :: pd_remove a (pd_remove b d)
  | None => d
  end.

Definition listed_b (f : str) : bool := mem_str (suffix f) [M3U; M3U8].

(* as_list: (file name, playlist name) of every *.m3u / *.m3u8 regular file *)
Definition as_list (d : pdir) : list (str * str) :=
  map (fun e => (fst e, name_from_path (fst e))) (filter (fun e => listed_b (fst e)) d).

Definition playlist := (str * str * list item)%type.      (* file name, name, tracks *)

(* create(name): replace (or create) the file with empty content *)
Definition create (ext name : str) (d : pdir) : option playlist * pdir :=
  let f := path_from_name (strip name) ext in
  if name_too_long f then (None, d)
  else (Some (f, name_from_path f, []), pd_write d f []).

(* save(Playlist(uri -> f, name, tracks)); `target n sfx` computes the new file name when
   the playlist name changed. *)
(* a new file name that is "", "." or ".." (blank / dot names on a URI without extension):
   the rename's destination is a directory, Path.rename fails with OSError *)
Definition bad_target (f : str) : bool :=
  match f with [] => true | [46] => true | [46; 46] => true | _ => false end.

Definition save_with (target : str -> str -> str) (f : str) (pname : option str) (tracks : list item)
           (d : pdir) : option playlist * pdir :=
  let d1 := pd_write d f (dump_items tracks) in
  match pname with
  | Some (c :: n) =>
      if str_eqb (c :: n) (name_from_path f) then (Some (f, name_from_path f, tracks), d1)
      else
        let f' := target (strip (c :: n)) (suffix f) in
        if name_too_long f' || bad_target f' then (None, d1)
        else (Some (f', name_from_path f', tracks), pd_rename d1 f f')
  | _ => (Some (f, name_from_path f, tracks), d1)
  end.

Definition save := save_with path_from_name.
(* before the fix: path_from_name(name).with_suffix(orig.suffix) *)
Definition save_old := save_with (fun n sfx => with_suffix (repl_sep n) sfx).

Definition lookup (raises : list str) (locals : list (str * item)) (f : str) (d : pdir)
  : res lexn (option playlist) :=
  match assoc_str f d with
  | None => Ok None
  | Some txt => rbind (load_items raises locals txt) (fun its => Ok (Some (f, name_from_path f, its)))
  end.

Definition delete (f : str) (d : pdir) : bool * pdir :=
  match assoc_str f d with
  | Some _ => (true, pd_remove f d)
  | None => (false, d)
  end.

Definition keys (d : pdir) : list str := map fst d.

(* ------------------------------------------------------------------ evaluation helpers *)

Definition ostr_eqb : option str -> option str -> bool := opt_eqb str_eqb.
Definition item_eqb (a b : item) : bool := str_eqb (fst a) (fst b) && ostr_eqb (snd a) (snd b).
Definition items_eqb : list item -> list item -> bool := list_eqb item_eqb.

(* same map: both have unique keys (the harness sends a real directory listing) *)
Definition pdir_eqb (d e : pdir) : bool :=
  (Nat.eqb (length d) (length e)) &&
  forallb (fun kv => opt_eqb str_eqb (assoc_str (fst kv) e) (Some (snd kv))) d.

(* ------------------------------------------------------------------ op sequences
   (correspondence driver: the harness replays the same sequence on the real provider) *)

Inductive pop :=
| PCreate (name : str)
| PSave (f : str) (pname : option str) (tracks : list item)
| PLookup (f : str)
| PGetItems (f : str)
| PAsList
| PDelete (f : str).

Inductive pobs :=
| OPl (p : option playlist)
| OItems (l : option (list item))
| OList (l : list (str * str))
| OBool (b : bool)
| ORaise.

Definition pstep_with (sv : str -> option str -> list item -> pdir -> option playlist * pdir)
           (ext : str) (raises : list str) (locals : list (str * item)) (o : pop) (d : pdir) : pobs * pdir :=
  (* the guard _is_in_basedir resolves the path OUTSIDE the try blocks of save, lookup,
     get_items and delete: a component longer than NAME_MAX makes realpath raise OSError *)
  let guarded (f : str) (k : pobs * pdir) : pobs * pdir :=
    if name_too_long f then (ORaise, d) else k in
  match o with
  | PCreate n => let '(r, d') := create ext n d in (OPl r, d')
  | PSave f pn tr => guarded f (let '(r, d') := sv f pn tr d in (OPl r, d'))
  | PLookup f => guarded f (match lookup raises locals f d with Ok r => OPl r | _ => ORaise end, d)
  | PGetItems f =>
      guarded f
      (match lookup raises locals f d with
       | Ok (Some (_, _, its)) => OItems (Some its)
       | Ok None => OItems None
       | _ => ORaise end, d)
  | PAsList => (OList (as_list d), d)
  | PDelete f => guarded f (let '(b, d') := delete f d in (OBool b, d'))
  end.
Definition pstep := pstep_with save.
Definition pstep_old := pstep_with save_old.

Definition playlist_eqb (a b : playlist) : bool :=
  let '(f, n, t) := a in let '(g, m, u) := b in str_eqb f g && str_eqb n m && items_eqb t u.
Definition pair_eqb (a b : str * str) : bool := str_eqb (fst a) (fst b) && str_eqb (snd a) (snd b).
Definition sub_list (a b : list (str * str)) : bool := forallb (fun x => existsb (pair_eqb x) b) a.

Definition pobs_eqb (a b : pobs) : bool :=
  match a, b with
  | OPl x, OPl y => opt_eqb playlist_eqb x y
  | OItems x, OItems y => opt_eqb items_eqb x y
  | OList x, OList y => Nat.eqb (length x) (length y) && sub_list x y && sub_list y x
  | OBool x, OBool y => Bool.eqb x y
  | ORaise, ORaise => true
  | _, _ => false
  end.

(* index of the first step whose observation or resulting directory differs; -1 if none *)
Fixpoint run_case (stepf : pop -> pdir -> pobs * pdir) (steps : list (pop * pobs * pdir)) (d : pdir) (i : Z) : Z :=
  match steps with
  | [] => -1
  | (o, ob, dn) :: t =>
      let '(mo, md) := stepf o d in
      if pobs_eqb mo ob && pdir_eqb md dn then run_case stepf t md (i + 1) else i
  end.
