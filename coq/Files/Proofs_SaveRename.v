(* Crash safety of M3UPlaylistsProvider.save() when it renames the playlist (C19):
   replace(orig) -- create temp, write, flush, fsync, rename temp -> orig, close --
   followed by rename orig -> newp. *)
From Coq Require Import ZArith List Bool Lia.
From Common Require Import Str Res.
From Files Require Import AtomicFile Proofs_Atomic.
Import ListNotations.
Open Scope Z_scope.

Lemma save_rename_ok_b_spec s0 s orig newp new :
  save_rename_ok_b s0 s orig newp new = true <-> save_rename_good s0 orig newp new s.
Proof.
  unfold save_rename_ok_b, save_rename_good.
  rewrite !orb_true_iff, !andb_true_iff, !obytes_eqb_eq. tauto.
Qed.

Lemma save_rename_first_bad_none s0 ops : forall s orig newp new k,
  save_rename_first_bad s0 s ops orig newp new k = None ->
  all_prefixes (save_rename_good s0 orig newp new) ops s.
Proof.
  induction ops as [|o t IH]; intros s orig newp new k H; cbn [save_rename_first_bad] in H;
    destruct (save_rename_ok_b s0 s orig newp new) eqn:E; try discriminate.
  - apply all_prefixes_nil. apply save_rename_ok_b_spec, E.
  - apply all_prefixes_cons; [apply save_rename_ok_b_spec, E|]. eapply IH, H.
Qed.

Lemma read_frame (s s0 : kstate) (p : path) :
  wf s0 -> names s p = names s0 p -> (forall i, i < next s0 -> data s i = data s0 i) ->
  read s p = read s0 p.
Proof.
  intros W N D. unfold read. rewrite N. destruct (names s0 p) as [i|] eqn:E; [|reflexivity].
  rewrite D; [reflexivity|]. eapply W, E.
Qed.

Section SaveRename.
  Variables (s0 : kstate) (f : Z) (tmp orig newp : path) (chunks : list bytes) (mid tail tail2 : list kop).
  Hypothesis Hwf : wf s0.
  Hypothesis Htmp : names s0 tmp = None.
  Hypothesis Hfd : fds s0 f = None.
  Hypothesis Hne : tmp <> orig.
  Hypothesis Hnew_tmp : newp <> tmp.
  Hypothesis Hnew_orig : newp <> orig.
  Hypothesis Hmid : forallb quiet_b mid = true.
  Hypothesis Htail : forallb quiet_b tail = true.
  Hypothesis Htail2 : forallb quiet_b tail2 = true.

  Let new := concat chunks.
  Let good := save_rename_good s0 orig newp new.

  Lemma part1 : all_prefixes good (kprotocol f tmp orig chunks mid tail) s0.
  Proof.
    eapply all_prefixes_impl; [|apply (ops_prefixes s0 f tmp orig chunks mid tail); assumption].
    intros s [P|P].
    - left. split.
      + apply (pre_read s0 f tmp orig s Hwf Hne P).
      + apply (pre_read s0 f tmp newp s Hwf); [intros X; apply Hnew_tmp; auto|exact P].
    - right. left. split; [apply (post_target _ _ _ _ _ P)|].
      apply read_frame; [exact Hwf| |apply (post_data _ _ _ _ _ P)].
      apply (post_frame _ _ _ _ _ P); assumption.
  Qed.

  Let sP := run (kprotocol f tmp orig chunks mid tail) s0.

  Lemma after_rename : 
    read (kstep sP (KRename orig newp)) orig = None /\
    read (kstep sP (KRename orig newp)) newp = Some new.
  Proof.
    pose proof (kprotocol_final_sec s0 f tmp orig chunks mid tail Htmp Hne Hmid Htail) as P. fold sP in P.
    pose proof (post_target _ _ _ _ _ P) as T. unfold read in T.
    destruct (names sP orig) as [i|] eqn:E; [|discriminate]. injection T as T.
    cbn [kstep]. rewrite E. unfold read; cbn [names data]. unfold upd_name.
    rewrite (path_eqb_neq orig newp) by (intros X; apply Hnew_orig; auto).
    rewrite !path_eqb_refl. split; [reflexivity|]. rewrite T. reflexivity.
  Qed.

  Lemma part2 : all_prefixes good (KRename orig newp :: tail2) sP.
  Proof.
    apply all_prefixes_cons.
    - apply (all_prefixes_last _ _ _ part1).
    - destruct after_rename as [A B].
      assert (H : all_prefixes (fun s => read s orig = None /\ read s newp = Some new) tail2
                               (kstep sP (KRename orig newp))).
      { apply (all_prefixes_inv (fun s => read s orig = None /\ read s newp = Some new) quiet_b).
        - intros s o Q [X Y]. unfold read in *. rewrite (quiet_names o s Q), (quiet_data o s Q). auto.
        - exact Htail2.
        - split; assumption. }
      eapply all_prefixes_impl; [|exact H]. intros s X. right. right. exact X.
  Qed.

  Lemma save_rename_atomic_sec :
    all_prefixes good (save_rename_ops f tmp orig newp chunks mid tail tail2) s0.
  Proof. unfold save_rename_ops. apply all_prefixes_app; [exact part1|exact part2]. Qed.

  Lemma save_rename_final_sec :
    let s := run (save_rename_ops f tmp orig newp chunks mid tail tail2) s0 in
    read s orig = None /\ read s newp = Some new /\ names s tmp = None.
  Proof.
    cbv zeta. unfold save_rename_ops. rewrite run_app. fold sP. rewrite run_cons.
    destruct after_rename as [A B].
    destruct (quiet_run tail2 (kstep sP (KRename orig newp)) Htail2) as [N D].
    unfold read in *. rewrite N, D. split; [exact A|]. split; [exact B|].
    pose proof (kprotocol_final_sec s0 f tmp orig chunks mid tail Htmp Hne Hmid Htail) as P. fold sP in P.
    pose proof (post_tmp _ _ _ _ _ P) as T.
    pose proof (post_target _ _ _ _ _ P) as Tg. unfold read in Tg.
    destruct (names sP orig) as [i|] eqn:E; [|discriminate].
    cbn [kstep]. rewrite E. cbn [names]. unfold upd_name.
    rewrite (path_eqb_neq tmp newp) by (intros X; apply Hnew_tmp; auto).
    rewrite (path_eqb_neq tmp orig Hne). exact T.
  Qed.
End SaveRename.

(* T4 (C19): save() with rename.  At every crash point a reader finds either the untouched
   old situation, or the complete new content under the old name, or the complete new
   content under the new name with the old name gone; another playlist that already had
   the new name is replaced atomically as well (its content is old or exactly `new`). *)
Lemma save_rename_atomic_lemma s0 f tmp orig newp chunks mid tail tail2 :
  wf s0 -> names s0 tmp = None -> fds s0 f = None ->
  tmp <> orig -> newp <> tmp -> newp <> orig ->
  forallb quiet_b mid = true -> forallb quiet_b tail = true -> forallb quiet_b tail2 = true ->
  let ops := save_rename_ops f tmp orig newp chunks mid tail tail2 in
  (forall k : nat, save_rename_good s0 orig newp (concat chunks) (crash ops k s0)) /\
  read (run ops s0) orig = None /\ read (run ops s0) newp = Some (concat chunks) /\
  names (run ops s0) tmp = None.
Proof.
  intros W T F N1 N2 N3 M L L2 ops. split.
  - intros k. exact (save_rename_atomic_sec s0 f tmp orig newp chunks mid tail tail2 W T F N1 N2 N3 M L L2 k).
  - exact (save_rename_final_sec s0 f tmp orig newp chunks mid tail tail2 T N1 N2 N3 M L L2).
Qed.

Lemma save_rename_first_bad_sound s0 ops orig newp new :
  save_rename_first_bad s0 s0 ops orig newp new 0 = None ->
  forall k : nat, save_rename_good s0 orig newp new (crash ops k s0).
Proof. intros H k. exact (save_rename_first_bad_none s0 ops s0 orig newp new 0 H k). Qed.

(* the opposite order -- rename the old file first, then write -- is refuted: *)
Lemma rename_first_refuted_lemma :
  let s0 := init w_target (Some [1; 2]) in
  let ops := KRename w_target [47; 100; 47; 110] :: kprotocol 3 w_tmp [47; 100; 47; 110] [[7; 8]] [KFsync 3] [KClose 3] in
  save_rename_first_bad s0 s0 ops w_target [47; 100; 47; 110] [7; 8] 0 = Some 1.
Proof. vm_compute. reflexivity. Qed.
