(* Proofs about Files/AtomicFile.v (C11, reused by C19). *)
From Coq Require Import ZArith List Bool Lia.
From Common Require Import Str Res.
From Files Require Import AtomicFile.
Import ListNotations.
Open Scope Z_scope.

(* ---------------------------------------------------------------- small facts *)

Lemma path_eqb_eq a b : path_eqb a b = true <-> a = b.
Proof. apply str_eqb_eq. Qed.

Lemma path_eqb_refl a : path_eqb a a = true.
Proof. apply path_eqb_eq. reflexivity. Qed.

Lemma path_eqb_neq a b : a <> b -> path_eqb a b = false.
Proof.
  intros H. destruct (path_eqb a b) eqn:E; [|reflexivity].
  apply path_eqb_eq in E. contradiction.
Qed.

Lemma obytes_eqb_eq a b : obytes_eqb a b = true <-> a = b.
Proof.
  destruct a as [a|], b as [b|]; simpl; split; intros H; try discriminate; try reflexivity.
  - apply str_eqb_eq in H. subst. reflexivity.
  - injection H as ->. apply str_eqb_eq. reflexivity.
Qed.

Lemma atomic_ok_b_spec s t old new : atomic_ok_b s t old new = true <-> atomic_at s t old new.
Proof.
  unfold atomic_ok_b, atomic_at. rewrite orb_true_iff, !obytes_eqb_eq. reflexivity.
Qed.

Lemma run_app a b s : run (a ++ b) s = run b (run a s).
Proof. unfold run. apply fold_left_app. Qed.

Lemma run_cons o t s : run (o :: t) s = run t (kstep s o).
Proof. reflexivity. Qed.

(* ---------------------------------------------------------------- T1: soundness *)

Lemma atomic_from_sound ops : forall s t old new,
  atomic_from s ops t old new = true ->
  forall k : nat, atomic_at (run (firstn k ops) s) t old new.
Proof.
  induction ops as [|o ops IH]; intros s t old new H k.
  - cbn in H. rewrite andb_true_r in H. rewrite firstn_nil. cbn. apply atomic_ok_b_spec, H.
  - cbn [atomic_from] in H. apply andb_true_iff in H. destruct H as [H0 H1].
    destruct k as [|k].
    + cbn. apply atomic_ok_b_spec, H0.
    + cbn [firstn]. rewrite run_cons. apply IH, H1.
Qed.

Lemma atomic_from_complete ops : forall s t old new,
  (forall k : nat, atomic_at (run (firstn k ops) s) t old new) ->
  atomic_from s ops t old new = true.
Proof.
  induction ops as [|o ops IH]; intros s t old new H.
  - cbn. rewrite andb_true_r. apply atomic_ok_b_spec. apply (H 0%nat).
  - cbn [atomic_from]. apply andb_true_iff. split.
    + apply atomic_ok_b_spec. apply (H 0%nat).
    + apply IH. intros k. apply (H (S k)).
Qed.

Lemma crash_atomic_sound_lemma ops target old new :
  crash_atomic_b ops target old new = true ->
  forall k : nat,
    read (crash ops k (init target old)) target = old \/
    read (crash ops k (init target old)) target = Some new.
Proof. intros H k. exact (atomic_from_sound ops _ _ _ _ H k). Qed.

Lemma crash_atomic_exact_lemma ops target old new :
  crash_atomic_b ops target old new = true <-> crash_atomic (init target old) ops target old new.
Proof.
  split.
  - intros H k. exact (atomic_from_sound ops _ _ _ _ H k).
  - intros H. apply atomic_from_complete. exact H.
Qed.

Lemma read_init target old : read (init target old) target = old.
Proof.
  destruct old as [b|]; unfold read, init; cbn.
  - unfold upd_name. rewrite path_eqb_refl. cbn. reflexivity.
  - reflexivity.
Qed.

(* ---------------------------------------------------------------- prefixes *)

Definition all_prefixes (P : kstate -> Prop) (ops : list kop) (s : kstate) : Prop :=
  forall k : nat, P (run (firstn k ops) s).

Lemma all_prefixes_nil (P : kstate -> Prop) s : P s -> all_prefixes P [] s.
Proof. intros H k. rewrite firstn_nil. exact H. Qed.

Lemma all_prefixes_cons (P : kstate -> Prop) o t s :
  P s -> all_prefixes P t (kstep s o) -> all_prefixes P (o :: t) s.
Proof. intros H0 H k. destruct k; [exact H0|]. cbn [firstn]. rewrite run_cons. apply H. Qed.

Lemma all_prefixes_app (P : kstate -> Prop) a b s :
  all_prefixes P a s -> all_prefixes P b (run a s) -> all_prefixes P (a ++ b) s.
Proof.
  intros Ha Hb k. rewrite firstn_app, run_app.
  destruct (Nat.le_gt_cases (length a) k) as [L|L].
  - rewrite (firstn_all2 a L). apply Hb.
  - replace (k - length a)%nat with 0%nat by lia. cbn. apply Ha.
Qed.

Lemma all_prefixes_last (P : kstate -> Prop) ops s : all_prefixes P ops s -> P (run ops s).
Proof. intros H. specialize (H (length ops)). rewrite firstn_all in H. exact H. Qed.

Lemma all_prefixes_impl (P Q : kstate -> Prop) ops s :
  (forall x, P x -> Q x) -> all_prefixes P ops s -> all_prefixes Q ops s.
Proof. intros I H k. apply I, H. Qed.

(* An invariant kept by every call of a list holds at every prefix. *)
Lemma all_prefixes_inv (P : kstate -> Prop) (okb : kop -> bool) :
  (forall s o, okb o = true -> P s -> P (kstep s o)) ->
  forall ops s, forallb okb ops = true -> P s -> all_prefixes P ops s.
Proof.
  intros Hstep. induction ops as [|o t IH]; intros s Hall Hs.
  - apply all_prefixes_nil, Hs.
  - cbn in Hall. apply andb_true_iff in Hall. destruct Hall as [Ho Ht].
    apply all_prefixes_cons; [exact Hs|]. apply IH; [exact Ht|]. apply Hstep; assumption.
Qed.

(* ---------------------------------------------------------------- write_at *)

Lemma write_at_end old bs : write_at (length old) bs old = old ++ bs.
Proof.
  unfold write_at, pad. rewrite Nat.sub_diag. cbn [repeat]. rewrite app_nil_r.
  rewrite firstn_all. rewrite skipn_all2 by lia. rewrite app_nil_r. reflexivity.
Qed.

(* ---------------------------------------------------------------- invariants *)

Definition wf (s : kstate) : Prop := forall p i, names s p = Some i -> i < next s.

(* State while the temporary file is being filled: it holds exactly `acc`. *)
Record phase1 (s0 : kstate) (f : Z) (tmp : path) (acc : bytes) (s : kstate) : Prop := {
  p1_names : forall p, names s p = if path_eqb p tmp then Some (next s0) else names s0 p;
  p1_data_new : data s (next s0) = acc;
  p1_data_old : forall i, i <> next s0 -> data s i = data s0 i;
  p1_fd : fds s f = Some (next s0, length acc);
}.

(* Weaker invariant of every state before the rename, also kept by the error handler
   and by whatever the process still does to descriptor f afterwards. *)
Record pre (s0 : kstate) (f : Z) (tmp : path) (s : kstate) : Prop := {
  pre_names : forall p, p <> tmp -> names s p = names s0 p;
  pre_tmp : names s tmp = None \/ names s tmp = Some (next s0);
  pre_data : forall i, i < next s0 -> data s i = data s0 i;
  pre_fd : fds s f = None \/ exists off, fds s f = Some (next s0, off);
}.

Lemma pre_start s0 f tmp : names s0 tmp = None -> fds s0 f = None -> pre s0 f tmp s0.
Proof. intros H1 H2. split; auto. Qed.

Lemma phase1_pre s0 f tmp acc s : phase1 s0 f tmp acc s -> pre s0 f tmp s.
Proof.
  intros [Hn Hd Ho Hf]. split.
  - intros p Hp. rewrite Hn. rewrite path_eqb_neq by exact Hp. reflexivity.
  - right. rewrite Hn, path_eqb_refl. reflexivity.
  - intros i Hi. apply Ho. lia.
  - right. eexists. exact Hf.
Qed.

Lemma pre_read s0 f tmp target s :
  wf s0 -> tmp <> target -> pre s0 f tmp s -> read s target = read s0 target.
Proof.
  intros W Hne [Hn _ Hd _]. unfold read. rewrite Hn by (intros E; apply Hne; auto).
  destruct (names s0 target) as [i|] eqn:E; [|reflexivity].
  rewrite Hd; [reflexivity|]. eapply W, E.
Qed.

Lemma phase1_open s0 f tmp :
  names s0 tmp = None -> phase1 s0 f tmp [] (kstep s0 (KOpen f tmp true true false)).
Proof.
  intros H. cbn [kstep]. rewrite H. cbn. split; cbn.
  - intros p. unfold upd_name. reflexivity.
  - unfold upd_z. rewrite Z.eqb_refl. reflexivity.
  - intros i Hi. unfold upd_z. destruct (i =? next s0) eqn:E; [lia|reflexivity].
  - unfold upd_z. rewrite Z.eqb_refl. reflexivity.
Qed.

Lemma phase1_write s0 f tmp acc s bs :
  phase1 s0 f tmp acc s -> phase1 s0 f tmp (acc ++ bs) (kstep s (KWrite f bs)).
Proof.
  intros [Hn Hd Ho Hf]. cbn [kstep]. rewrite Hf. split; cbn.
  - exact Hn.
  - unfold upd_z. rewrite Z.eqb_refl. rewrite Hd. apply write_at_end.
  - intros i Hi. unfold upd_z. destruct (i =? next s0) eqn:E; [lia|]. apply Ho, Hi.
  - unfold upd_z. rewrite Z.eqb_refl. rewrite app_length. reflexivity.
Qed.

Lemma phase1_writes s0 f tmp chunks : forall acc s,
  phase1 s0 f tmp acc s ->
  all_prefixes (pre s0 f tmp) (map (KWrite f) chunks) s /\
  phase1 s0 f tmp (acc ++ concat chunks) (run (map (KWrite f) chunks) s).
Proof.
  induction chunks as [|c t IH]; intros acc s H.
  - cbn. rewrite app_nil_r. split; [|exact H]. apply all_prefixes_nil. eapply phase1_pre, H.
  - cbn [map concat]. destruct (IH (acc ++ c) _ (phase1_write _ _ _ _ _ c H)) as [A B].
    split.
    + apply all_prefixes_cons; [eapply phase1_pre, H|exact A].
    + rewrite run_cons. rewrite app_assoc. exact B.
Qed.

Lemma quiet_names o s : quiet_b o = true -> names (kstep s o) = names s.
Proof. destruct o; cbn; intros H; try discriminate; reflexivity. Qed.
Lemma quiet_data o s : quiet_b o = true -> data (kstep s o) = data s.
Proof. destruct o; cbn; intros H; try discriminate; reflexivity. Qed.

Lemma quiet_run ops : forall s, forallb quiet_b ops = true ->
  names (run ops s) = names s /\ data (run ops s) = data s.
Proof.
  induction ops as [|o t IH]; intros s H; [split; reflexivity|].
  cbn in H. apply andb_true_iff in H. destruct H as [Ho Ht].
  rewrite run_cons. destruct (IH (kstep s o) Ht) as [A B].
  rewrite A, B. split; [apply quiet_names|apply quiet_data]; exact Ho.
Qed.

(* calls that keep `pre`: writes through f, fsync, close, unlink of the temporary file *)
Definition pre_keep_b (f : Z) (tmp : path) (o : kop) : bool :=
  match o with
  | KWrite g _ => g =? f
  | KFsync _ | KClose _ => true
  | KUnlink p => path_eqb p tmp
  | _ => false
  end.

Lemma pre_step s0 f tmp s o :
  pre_keep_b f tmp o = true -> pre s0 f tmp s -> pre s0 f tmp (kstep s o).
Proof.
  intros Hk [Hn Ht Hd Hf]. destruct o; cbn in Hk; try discriminate.
  - (* KWrite *) apply Z.eqb_eq in Hk. subst f0. cbn [kstep].
    destruct Hf as [Hf|[off Hf]]; rewrite Hf.
    + split; auto.
    + split; cbn.
      * exact Hn.
      * exact Ht.
      * intros i Hi. unfold upd_z. destruct (i =? next s0) eqn:E; [lia|]. apply Hd, Hi.
      * right. unfold upd_z. rewrite Z.eqb_refl. eexists. reflexivity.
  - (* KFsync *) cbn. split; auto.
  - (* KUnlink *) apply path_eqb_eq in Hk. subst p. cbn [kstep]. split; cbn.
    + intros p Hp. unfold upd_name. rewrite path_eqb_neq by exact Hp. apply Hn, Hp.
    + left. unfold upd_name. rewrite path_eqb_refl. reflexivity.
    + exact Hd.
    + exact Hf.
  - (* KClose *) cbn [kstep]. split; cbn; auto.
    unfold upd_z. destruct (f =? f0) eqn:E; [left; reflexivity|exact Hf].
Qed.

Lemma quiet_pre_keep f tmp o : quiet_b o = true -> pre_keep_b f tmp o = true.
Proof. destruct o; cbn; intros H; try discriminate; reflexivity. Qed.

Lemma forallb_impl {A} (p q : A -> bool) l :
  (forall x, p x = true -> q x = true) -> forallb p l = true -> forallb q l = true.
Proof.
  intros I. induction l as [|x t IH]; cbn; [auto|]. intros H.
  apply andb_true_iff in H. destruct H as [H1 H2]. rewrite (I _ H1), (IH H2). reflexivity.
Qed.

Lemma after_fault_pre_keep f tmp o : after_fault_b f o = true -> pre_keep_b f tmp o = true.
Proof. destruct o; cbn; intros H; try discriminate; auto. Qed.

Lemma aftermath_pre s0 f tmp aftermath : forall s1,
  forallb (after_fault_b f) aftermath = true ->
  pre s0 f tmp s1 -> names s1 tmp = None ->
  pre s0 f tmp (run aftermath s1) /\ names (run aftermath s1) tmp = None.
Proof.
  induction aftermath as [|o t IH]; intros s1 Haft P' T; [split; assumption|].
  cbn in Haft. apply andb_true_iff in Haft. destruct Haft as [Ho Ht].
  rewrite run_cons. apply IH; [exact Ht| |].
  - apply pre_step; [apply after_fault_pre_keep, Ho|exact P'].
  - destruct o; cbn in Ho; try discriminate; cbn [kstep].
    + destruct (fds s1 f0) as [[i off]|]; cbn; exact T.
    + exact T.
    + cbn. exact T.
Qed.

(* ---------------------------------------------------------------- the protocol *)

Section Protocol.
  Variables (s0 : kstate) (f : Z) (tmp target : path) (chunks : list bytes) (mid tail : list kop).
  Hypothesis Hwf : wf s0.
  Hypothesis Htmp : names s0 tmp = None.
  Hypothesis Hfd : fds s0 f = None.
  Hypothesis Hne : tmp <> target.
  Hypothesis Hmid : forallb quiet_b mid = true.
  Hypothesis Htail : forallb quiet_b tail = true.

  Let old := read s0 target.
  Let new := concat chunks.
  Let partA := KOpen f tmp true true false :: map (KWrite f) chunks ++ mid.
  Let partB := KRename tmp target :: tail.
  Let ops := kprotocol f tmp target chunks mid tail.

  Lemma ops_split : ops = partA ++ partB.
  Proof. unfold ops, kprotocol, partA, partB. cbn. rewrite <- app_assoc. reflexivity. Qed.

  (* state just before the rename *)
  Let sA := run partA s0.

  Lemma partA_prefixes : all_prefixes (pre s0 f tmp) partA s0.
  Proof.
    unfold partA. apply all_prefixes_cons; [apply pre_start; assumption|].
    pose proof (phase1_open s0 f tmp Htmp) as P1.
    destruct (phase1_writes s0 f tmp chunks [] _ P1) as [A B].
    apply all_prefixes_app; [exact A|].
    apply (all_prefixes_inv (pre s0 f tmp) (pre_keep_b f tmp)).
    - intros s o. apply pre_step.
    - eapply forallb_impl; [|exact Hmid]. intros x. apply quiet_pre_keep.
    - eapply phase1_pre, B.
  Qed.

  Lemma sA_names p : names sA p = if path_eqb p tmp then Some (next s0) else names s0 p.
  Proof.
    unfold sA, partA. rewrite run_cons, run_app.
    pose proof (phase1_open s0 f tmp Htmp) as P1.
    destruct (phase1_writes s0 f tmp chunks [] _ P1) as [_ B].
    destruct (quiet_run mid (run (map (KWrite f) chunks) (kstep s0 (KOpen f tmp true true false))) Hmid) as [N _].
    rewrite N. apply (p1_names _ _ _ _ _ B).
  Qed.

  Lemma sA_data_new : data sA (next s0) = new.
  Proof.
    unfold sA, partA. rewrite run_cons, run_app.
    pose proof (phase1_open s0 f tmp Htmp) as P1.
    destruct (phase1_writes s0 f tmp chunks [] _ P1) as [_ B].
    destruct (quiet_run mid (run (map (KWrite f) chunks) (kstep s0 (KOpen f tmp true true false))) Hmid) as [_ D].
    rewrite D. apply (p1_data_new _ _ _ _ _ B).
  Qed.

  Lemma sA_data_old i : i <> next s0 -> data sA i = data s0 i.
  Proof.
    unfold sA, partA. rewrite run_cons, run_app.
    pose proof (phase1_open s0 f tmp Htmp) as P1.
    destruct (phase1_writes s0 f tmp chunks [] _ P1) as [_ B].
    destruct (quiet_run mid (run (map (KWrite f) chunks) (kstep s0 (KOpen f tmp true true false))) Hmid) as [_ D].
    rewrite D. apply (p1_data_old _ _ _ _ _ B).
  Qed.

  (* Everything known about a state after the rename. *)
  Record post (s : kstate) : Prop := {
    post_target : read s target = Some new;
    post_tmp : names s tmp = None;
    post_frame : forall p, p <> target -> p <> tmp -> names s p = names s0 p;
    post_data : forall i, i < next s0 -> data s i = data s0 i;
  }.

  Lemma post_rename : post (kstep sA (KRename tmp target)).
  Proof.
    assert (E : kstep sA (KRename tmp target) =
                mkK (upd_name (upd_name (names sA) tmp None) target (Some (next s0)))
                    (data sA) (next sA) (fds sA)).
    { cbn [kstep]. rewrite sA_names, path_eqb_refl. reflexivity. }
    rewrite E. split; unfold read; cbn [names data].
    - unfold upd_name. rewrite path_eqb_refl. rewrite sA_data_new. reflexivity.
    - unfold upd_name. rewrite (path_eqb_neq tmp target Hne), path_eqb_refl. reflexivity.
    - intros p H1 H2. unfold upd_name. rewrite (path_eqb_neq p target H1), (path_eqb_neq p tmp H2).
      rewrite sA_names, (path_eqb_neq p tmp H2). reflexivity.
    - intros i Hi. apply sA_data_old. lia.
  Qed.

  Lemma post_quiet s o : quiet_b o = true -> post s -> post (kstep s o).
  Proof.
    intros Q [A B C D]. split; unfold read in *; rewrite ?(quiet_names o s Q), ?(quiet_data o s Q); assumption.
  Qed.

  Lemma partB_prefixes : all_prefixes (fun s => pre s0 f tmp s \/ post s) partB sA.
  Proof.
    unfold partB. apply all_prefixes_cons.
    - left. apply (all_prefixes_last _ _ _ partA_prefixes).
    - apply (all_prefixes_impl post); [intros x Hx; right; exact Hx|].
      apply (all_prefixes_inv post quiet_b); [intros s o; apply post_quiet|exact Htail|apply post_rename].
  Qed.

  Lemma ops_prefixes : all_prefixes (fun s => pre s0 f tmp s \/ post s) ops s0.
  Proof.
    rewrite ops_split. apply all_prefixes_app.
    - eapply all_prefixes_impl; [|exact partA_prefixes]. intros x Hx. left. exact Hx.
    - exact partB_prefixes.
  Qed.

  Lemma kprotocol_atomic_sec : crash_atomic s0 ops target old new.
  Proof.
    intros k. destruct (ops_prefixes k) as [P|P].
    - left. eapply pre_read; eassumption.
    - right. apply (post_target _ P).
  Qed.

  Lemma kprotocol_final_sec : post (run ops s0).
  Proof.
    rewrite ops_split, run_app. fold sA. unfold partB. rewrite run_cons.
    apply (all_prefixes_last post).
    apply (all_prefixes_inv post quiet_b); [intros s o; apply post_quiet|exact Htail|apply post_rename].
  Qed.

  (* The call with index j <= |partA| fails (the rename, or anything before it, did not
     happen): the handler unlinks tmp; later writes/closes on f change nothing visible. *)
  Lemma fault_before_rename_sec j aftermath :
    (j <= length partA)%nat -> forallb (after_fault_b f) aftermath = true ->
    let s' := fault_run ops j tmp aftermath s0 in
    read s' target = old /\ names s' tmp = None /\
    (forall p, p <> tmp -> names s' p = names s0 p) /\
    (forall i, i < next s0 -> data s' i = data s0 i).
  Proof.
    intros Hj Haft s'. unfold s', fault_run, crash.
    assert (E : firstn j ops = firstn j partA).
    { rewrite ops_split, firstn_app. replace (j - length partA)%nat with 0%nat by lia.
      cbn. apply app_nil_r. }
    rewrite E.
    pose proof (partA_prefixes j) as P.
    assert (P' : pre s0 f tmp (kstep (run (firstn j partA) s0) (KUnlink tmp))).
    { apply pre_step; [cbn; apply path_eqb_refl|exact P]. }
    assert (T : names (kstep (run (firstn j partA) s0) (KUnlink tmp)) tmp = None).
    { cbn. unfold upd_name. rewrite path_eqb_refl. reflexivity. }
    destruct (aftermath_pre s0 f tmp aftermath _ Haft P' T) as [Q1 Q2].
    split; [|split; [|split]].
    - eapply pre_read; eassumption.
    - exact Q2.
    - intros p Hp. apply (pre_names _ _ _ _ Q1 p Hp).
    - apply (pre_data _ _ _ _ Q1).
  Qed.

  (* A failure after the rename (only fsync/close calls are left): the new content is in
     place, no temporary file. *)
  Lemma fault_after_rename_sec j aftermath :
    (length partA < j)%nat -> forallb quiet_b aftermath = true ->
    post (fault_run ops j tmp aftermath s0).
  Proof.
    intros Hj Haft. unfold fault_run, crash.
    assert (P : post (run (firstn j ops) s0)).
    { rewrite ops_split, firstn_app, run_app.
      rewrite (firstn_all2 partA) by lia. fold sA.
      destruct (j - length partA)%nat as [|m] eqn:E; [lia|].
      unfold partB. cbn [firstn]. rewrite run_cons.
      apply (all_prefixes_inv post quiet_b) with (ops := tail);
        [intros s o; apply post_quiet|exact Htail|apply post_rename]. }
    assert (P1 : post (kstep (run (firstn j ops) s0) (KUnlink tmp))).
    { destruct P as [A B C D]. split; cbn.
      - unfold read in *. cbn. unfold upd_name. rewrite (path_eqb_neq target tmp) by (intros X; apply Hne; auto).
        exact A.
      - unfold upd_name. rewrite path_eqb_refl. reflexivity.
      - intros p H1 H2. unfold upd_name. rewrite (path_eqb_neq p tmp H2). apply C; assumption.
      - exact D. }
    apply (all_prefixes_last post).
    apply (all_prefixes_inv post quiet_b); [intros s o; apply post_quiet|exact Haft|exact P1].
  Qed.
End Protocol.

Theorem kprotocol_atomic s0 f tmp target chunks mid tail :
  wf s0 -> names s0 tmp = None -> fds s0 f = None -> tmp <> target ->
  forallb quiet_b mid = true -> forallb quiet_b tail = true ->
  let ops := kprotocol f tmp target chunks mid tail in
  crash_atomic s0 ops target (read s0 target) (concat chunks)
  /\ read (run ops s0) target = Some (concat chunks)
  /\ names (run ops s0) tmp = None
  /\ (forall p, p <> target -> p <> tmp -> names (run ops s0) p = names s0 p)
  /\ (forall i, i < next s0 -> data (run ops s0) i = data s0 i).
Proof.
  intros W T F N M L ops.
  split; [apply kprotocol_atomic_sec; assumption|].
  destruct (kprotocol_final_sec s0 f tmp target chunks mid tail T N M L) as [A B C D].
  auto.
Qed.

Lemma wf_init target old : wf (init target old).
Proof.
  destruct old as [b|]; intros p i H; cbn in *.
  - unfold upd_name in H. destruct (path_eqb p target); [injection H as <-; lia|discriminate].
  - discriminate.
Qed.

(* ---------------------------------------------------------------- recognizer *)

Lemma shape_tail_quiet ops : shape_tail ops = true -> forallb quiet_b ops = true.
Proof. induction ops as [|o t IH]; cbn; [auto|]. intros H. apply andb_true_iff in H.
  destruct H as [A B]. rewrite A, (IH B). reflexivity. Qed.

Lemma shape_mid_split tmp target ops :
  shape_mid tmp target ops = true ->
  exists mid tail, ops = mid ++ KRename tmp target :: tail /\
                   forallb quiet_b mid = true /\ forallb quiet_b tail = true.
Proof.
  induction ops as [|o t IH]; [discriminate|].
  intros H.
  assert (Q : (exists a b, o = KRename a b) \/ (quiet_b o = true /\ shape_mid tmp target t = true)).
  { destruct o; cbn [shape_mid] in H; try (right; apply andb_true_iff in H; exact H).
    left. eauto. }
  destruct Q as [(a & b & ->)|[Q H']].
  - cbn [shape_mid] in H.
    apply andb_true_iff in H. destruct H as [H T]. apply andb_true_iff in H. destruct H as [A B].
    apply path_eqb_eq in A, B. subst. exists [], t. split; [reflexivity|].
    split; [reflexivity|apply shape_tail_quiet, T].
  - destruct (IH H') as (mid & tail & E & M & T).
    exists (o :: mid), tail. split; [rewrite E; reflexivity|]. split; [cbn; rewrite Q; exact M|exact T].
Qed.

Lemma shape_writes_split f tmp target ops :
  shape_writes f tmp target ops = true ->
  exists chunks mid tail, ops = map (KWrite f) chunks ++ mid ++ KRename tmp target :: tail /\
     forallb quiet_b mid = true /\ forallb quiet_b tail = true /\ written f ops = concat chunks.
Proof.
  induction ops as [|o t IH]; [discriminate|].
  intros H. destruct o;
    try (cbn [shape_writes] in H; destruct (shape_mid_split _ _ _ H) as (mid & tail & E & M & T);
         exists [], mid, tail; cbn; split; [exact E|]; split; [exact M|]; split; [exact T|reflexivity]).
  (* KWrite *)
  cbn [shape_writes] in H. apply andb_true_iff in H. destruct H as [A B].
  apply Z.eqb_eq in A. subst f0.
  destruct (IH B) as (chunks & mid & tail & E & M & T & W).
  exists (bs :: chunks), mid, tail. cbn [map concat written]. rewrite Z.eqb_refl, W, E.
  split; [reflexivity|]. auto.
Qed.

Lemma protocol_shape_sound_lemma ops target :
  protocol_shape_b ops target = true ->
  exists f chunks mid tail,
    ops = kprotocol f (shape_tmp ops) target chunks mid tail /\
    shape_tmp ops <> target /\ dirname (shape_tmp ops) = dirname target /\
    forallb quiet_b mid = true /\ forallb quiet_b tail = true /\
    shape_new ops = concat chunks.
Proof.
  destruct ops as [|o t]; [discriminate|].
  destruct o; try discriminate. cbn [protocol_shape_b].
  destruct creat; [|discriminate]. destruct excl; [|discriminate]. destruct trunc; [discriminate|].
  intros H. apply andb_true_iff in H. destruct H as [H S]. apply andb_true_iff in H. destruct H as [N D].
  destruct (shape_writes_split _ _ _ _ S) as (chunks & mid & tail & E & M & T & W).
  exists f, chunks, mid, tail. cbn [shape_tmp shape_new]. unfold kprotocol. rewrite <- E.
  split; [reflexivity|]. split.
  - intros X. subst. rewrite path_eqb_refl in N. discriminate.
  - split; [apply str_eqb_eq, D|]. auto.
Qed.

(* Every trace of the recognized shape is crash-atomic for EVERY old content, ends with
   the written bytes in place and leaves no temporary file. *)
Lemma shape_atomic_lemma ops target old :
  protocol_shape_b ops target = true ->
  crash_atomic (init target old) ops target old (shape_new ops)
  /\ read (run ops (init target old)) target = Some (shape_new ops)
  /\ (forall p, p <> target -> names (run ops (init target old)) p = None).
Proof.
  intros H. destruct (protocol_shape_sound_lemma _ _ H) as (f & chunks & mid & tail & E & N & _ & M & T & W).
  set (tmp := shape_tmp ops) in *.
  assert (Tn : names (init target old) tmp = None).
  { destruct old; cbn; [|reflexivity]. unfold upd_name. rewrite (path_eqb_neq tmp target N). reflexivity. }
  assert (Fd : fds (init target old) f = None) by (destruct old; reflexivity).
  destruct (kprotocol_atomic (init target old) f tmp target chunks mid tail
              (wf_init _ _) Tn Fd N M T) as (A & B & C & D & _).
  rewrite <- E in *. rewrite W. rewrite read_init in A. split; [exact A|]. split; [exact B|].
  intros p Hp. destruct (path_eqb p tmp) eqn:Q.
  - apply path_eqb_eq in Q. rewrite Q. exact C.
  - rewrite D; [|exact Hp|intros X; rewrite X, path_eqb_refl in Q; discriminate].
    destruct old; cbn; [|reflexivity]. unfold upd_name. rewrite (path_eqb_neq p target Hp). reflexivity.
Qed.

(* ---------------------------------------------------------------- process level *)

Lemma concat_cut cuts : forall b, concat (cut cuts b) = b.
Proof.
  induction cuts as [|n cs IH]; intros b; destruct b as [|x b]; cbn [cut]; try reflexivity.
  - cbn. rewrite app_nil_r. reflexivity.
  - cbn [concat]. rewrite IH. apply firstn_skipn.
Qed.

Lemma cut_nil cuts : cut cuts [] = [].
Proof. destruct cuts; reflexivity. Qed.

Lemma compile_body f body : forall b,
  forallb (body_b f) body = true ->
  exists chunks b',
    (forall rest, compile b (body ++ rest) = map (KWrite f) chunks ++ compile b' rest) /\
    (forall g, g <> f -> b' g = b g) /\
    concat chunks ++ b' f = b f ++ payload body.
Proof.
  induction body as [|u t IH]; intros b H.
  - exists [], b. cbn. rewrite app_nil_r. auto.
  - cbn in H. apply andb_true_iff in H. destruct H as [Hu Ht].
    destruct u; cbn in Hu; try discriminate; apply Z.eqb_eq in Hu; subst f0.
    + (* UBufWrite *)
      destruct (IH (upd_z b f (b f ++ bs)) Ht) as (chunks & b' & E & O & C).
      exists chunks, b'. split; [|split].
      * intros rest. cbn. apply E.
      * intros g Hg. rewrite O by exact Hg. unfold upd_z. destruct (g =? f) eqn:X; [lia|reflexivity].
      * rewrite C. unfold upd_z. rewrite Z.eqb_refl. cbn [payload]. rewrite app_assoc. reflexivity.
    + (* UFlush *)
      destruct (IH (upd_z b f []) Ht) as (chunks & b' & E & O & C).
      exists (cut cuts (b f) ++ chunks), b'. split; [|split].
      * intros rest. cbn. rewrite E, map_app, app_assoc. reflexivity.
      * intros g Hg. rewrite O by exact Hg. unfold upd_z. destruct (g =? f) eqn:X; [lia|reflexivity].
      * rewrite concat_app, concat_cut, <- app_assoc, C. unfold upd_z. rewrite Z.eqb_refl.
        cbn [payload]. reflexivity.
Qed.

Lemma compile_quiet us : forall b,
  forallb uquiet_b us = true -> (forall g, b g = []) ->
  exists ks b', forallb quiet_b ks = true /\ (forall g, b' g = []) /\
                forall rest, compile b (us ++ rest) = ks ++ compile b' rest.
Proof.
  induction us as [|u t IH]; intros b H E.
  - exists [], b. cbn. auto.
  - cbn in H. apply andb_true_iff in H. destruct H as [Hu Ht].
    destruct u; cbn in Hu; try discriminate.
    + destruct (IH b Ht E) as (ks & b' & Q & E' & C).
      exists (KFsync f :: ks), b'. split; [exact Q|]. split; [exact E'|].
      intros rest. cbn. rewrite C. reflexivity.
    + assert (E1 : forall g, upd_z b f [] g = []).
      { intros g. unfold upd_z. destruct (g =? f); [reflexivity|apply E]. }
      destruct (IH _ Ht E1) as (ks & b' & Q & E' & C).
      exists (KClose f :: ks), b'. split; [exact Q|]. split; [exact E'|].
      intros rest. cbn. rewrite E, cut_nil. cbn. rewrite C. reflexivity.
Qed.

Lemma uprotocol_compiles f tmp target body cuts mid tail :
  forallb (body_b f) body = true -> forallb uquiet_b mid = true -> forallb uquiet_b tail = true ->
  exists chunks kmid ktail,
    compile no_bufs (uprotocol f tmp target body cuts mid tail) = kprotocol f tmp target chunks kmid ktail /\
    concat chunks = payload body /\ forallb quiet_b kmid = true /\ forallb quiet_b ktail = true.
Proof.
  intros Hb Hm Ht. unfold uprotocol. cbn [compile].
  destruct (compile_body f body (upd_z no_bufs f []) Hb) as (chunks & b' & E & O & C).
  rewrite E. cbn [compile].
  assert (E1 : forall g, upd_z b' f [] g = []).
  { intros g. unfold upd_z. destruct (g =? f) eqn:X; [reflexivity|].
    rewrite O by lia. unfold upd_z, no_bufs. rewrite X. reflexivity. }
  destruct (compile_quiet mid _ Hm E1) as (kmid & b2 & Qm & E2 & Cm).
  rewrite Cm. cbn [compile].
  destruct (compile_quiet tail b2 Ht E2) as (ktail & b3 & Qt & _ & Ct).
  specialize (Ct []). rewrite app_nil_r in Ct. rewrite Ct. cbn [compile]. rewrite app_nil_r.
  exists (chunks ++ cut cuts (b' f)), kmid, ktail. split; [|split; [|split]].
  - unfold kprotocol. rewrite map_app, <- app_assoc. reflexivity.
  - rewrite concat_app, concat_cut, C. unfold upd_z. rewrite Z.eqb_refl. reflexivity.
  - exact Qm.
  - exact Qt.
Qed.

(* T2 at process level: every program of the protocol shape, for every way of
   interleaving buffered writes with flushes and every split of every flush. *)
Lemma protocol_atomic_lemma s0 f tmp target body cuts mid tail :
  wf s0 -> names s0 tmp = None -> fds s0 f = None -> tmp <> target ->
  forallb (body_b f) body = true -> forallb uquiet_b mid = true -> forallb uquiet_b tail = true ->
  let ops := compile no_bufs (uprotocol f tmp target body cuts mid tail) in
  crash_atomic s0 ops target (read s0 target) (payload body)
  /\ read (run ops s0) target = Some (payload body)
  /\ names (run ops s0) tmp = None
  /\ (forall p, p <> target -> p <> tmp -> names (run ops s0) p = names s0 p)
  /\ (forall i, i < next s0 -> data (run ops s0) i = data s0 i).
Proof.
  intros W T F N Hb Hm Ht ops.
  destruct (uprotocol_compiles f tmp target body cuts mid tail Hb Hm Ht) as (chunks & kmid & ktail & E & C & Qm & Qt).
  unfold ops. rewrite E, <- C. apply kprotocol_atomic; assumption.
Qed.

(* T3: an OSError at the call with index j (so only the first j calls happened), followed
   by the handler's unlink of the temporary file and by any later flush/close of f. *)
Lemma handled_failure_clean_lemma s0 f tmp target body cuts mid tail j aftermath :
  wf s0 -> names s0 tmp = None -> fds s0 f = None -> tmp <> target ->
  forallb (body_b f) body = true -> forallb uquiet_b mid = true -> forallb uquiet_b tail = true ->
  forallb quiet_b aftermath = true ->
  let ops := compile no_bufs (uprotocol f tmp target body cuts mid tail) in
  let s' := fault_run ops j tmp aftermath s0 in
  (read s' target = read s0 target \/ read s' target = Some (payload body))
  /\ names s' tmp = None
  /\ (forall p, p <> target -> p <> tmp -> names s' p = names s0 p)
  /\ (forall i, i < next s0 -> data s' i = data s0 i).
Proof.
  intros W T F N Hb Hm Ht Ha ops s'.
  destruct (uprotocol_compiles f tmp target body cuts mid tail Hb Hm Ht) as (chunks & kmid & ktail & E & C & Qm & Qt).
  unfold s', ops. rewrite E, <- C.
  set (partA := KOpen f tmp true true false :: map (KWrite f) chunks ++ kmid).
  destruct (Nat.le_gt_cases j (length partA)) as [L|L].
  - assert (Ha' : forallb (after_fault_b f) aftermath = true).
    { eapply forallb_impl; [|exact Ha]. intros x. destruct x; cbn; intros; try discriminate; reflexivity. }
    destruct (fault_before_rename_sec s0 f tmp target chunks kmid ktail W T F N Qm j aftermath L Ha')
      as (A & B & D & G).
    split; [left; exact A|]. split; [exact B|]. split; [|exact G].
    intros p _ H2. apply D, H2.
  - destruct (fault_after_rename_sec s0 f tmp target chunks kmid ktail T N Qm Qt j aftermath L Ha)
      as [A B D G].
    split; [right; exact A|]. auto.
Qed.

(* Before the rename has happened, even writes that a late flush (garbage collection,
   `finally: fp.close()`) still pushes through f cannot touch the target. *)
Lemma failure_before_rename_lemma s0 f tmp target chunks mid tail j aftermath :
  wf s0 -> names s0 tmp = None -> fds s0 f = None -> tmp <> target ->
  forallb quiet_b mid = true ->
  (j <= 1 + length chunks + length mid)%nat ->
  forallb (after_fault_b f) aftermath = true ->
  let ops := kprotocol f tmp target chunks mid tail in
  let s' := fault_run ops j tmp aftermath s0 in
  read s' target = read s0 target /\ names s' tmp = None /\
  (forall p, p <> tmp -> names s' p = names s0 p).
Proof.
  intros W T F N Qm L Ha ops s'.
  destruct (fault_before_rename_sec s0 f tmp target chunks mid tail W T F N Qm j aftermath) as (A & B & D & _).
  - cbn [length]. rewrite app_length, map_length. lia.
  - exact Ha.
  - auto.
Qed.

(* ---------------------------------------------------------------- dump / replace *)

Lemma dump_body_ok f pieces : forallb (body_b f) (dump_body f pieces) = true.
Proof.
  induction pieces as [|[bs [c|]] t IH]; cbn; [reflexivity| |]; rewrite ?Z.eqb_refl; cbn; exact IH.
Qed.

Lemma dump_body_payload f pieces : payload (dump_body f pieces) = concat (map fst pieces).
Proof.
  induction pieces as [|[bs [c|]] t IH]; cbn; [reflexivity| |]; rewrite IH; reflexivity.
Qed.

Lemma dump_atomic_lemma s0 f tmp target pieces cuts :
  wf s0 -> names s0 tmp = None -> fds s0 f = None -> tmp <> target ->
  let ops := compile no_bufs (dump_uops f tmp target pieces cuts) in
  let new := concat (map fst pieces) in
  crash_atomic s0 ops target (read s0 target) new
  /\ read (run ops s0) target = Some new
  /\ names (run ops s0) tmp = None.
Proof.
  intros W T F N ops new. unfold ops, dump_uops, new. rewrite <- (dump_body_payload f).
  destruct (protocol_atomic_lemma s0 f tmp target (dump_body f pieces) cuts [UFsync f; UClose f []] []
              W T F N (dump_body_ok f pieces) eq_refl eq_refl) as (A & B & C & _).
  auto.
Qed.

Lemma replace_atomic_lemma s0 f tmp target pieces cuts :
  wf s0 -> names s0 tmp = None -> fds s0 f = None -> tmp <> target ->
  let ops := compile no_bufs (replace_uops f tmp target pieces cuts) in
  let new := concat (map fst pieces) in
  crash_atomic s0 ops target (read s0 target) new
  /\ read (run ops s0) target = Some new
  /\ names (run ops s0) tmp = None.
Proof.
  intros W T F N ops new. unfold ops, replace_uops, new. rewrite <- (dump_body_payload f).
  destruct (protocol_atomic_lemma s0 f tmp target (dump_body f pieces) cuts [UFsync f] [UClose f []]
              W T F N (dump_body_ok f pieces) eq_refl eq_refl) as (A & B & C & _).
  auto.
Qed.

(* The code before the fix: a crash between the rename and the late flush leaves an
   empty target.  Concrete witness, computed. *)
Definition w_target : path := [47; 100; 47; 115].          (* "/d/s"   *)
Definition w_tmp : path := [47; 100; 47; 115; 46; 120].    (* "/d/s.x" *)

Lemma dump_old_refuted_lemma :
  exists old new k,
    let ops := compile no_bufs (dump_old_uops 3 w_tmp w_target [(new, None)] []) in
    crash_atomic_b ops w_target old new = false /\
    read (crash ops k (init w_target old)) w_target = Some [] /\
    Some [] <> old /\ [] <> new.
Proof.
  exists (Some [1; 2; 3]), [4; 5; 6; 7], 2%nat. vm_compute.
  split; [reflexivity|]. split; [reflexivity|]. split; discriminate.
Qed.

(* non-vacuity: the hypotheses of the protocol theorems hold for a concrete run, and the
   run really replaces a non-empty old file by different non-empty data in 3 writes *)
Example protocol_nonvacuous :
  let s0 := init w_target (Some [1; 2; 3]) in
  let ops := compile no_bufs (dump_uops 3 w_tmp w_target [([4; 5], None); ([6; 7; 8], Some [0%nat]); ([9], None)] [1%nat]) in
  wf s0 /\ names s0 w_tmp = None /\ fds s0 3 = None /\ w_tmp <> w_target /\
  length ops = 7%nat /\ protocol_shape_b ops w_target = true /\
  crash_atomic_b ops w_target (Some [1; 2; 3]) [4; 5; 6; 7; 8; 9] = true /\
  read (run ops s0) w_target = Some [4; 5; 6; 7; 8; 9].
Proof.
  cbv zeta. split; [apply wf_init|].
  split; [reflexivity|]. split; [reflexivity|]. split; [discriminate|].
  split; [reflexivity|]. split; [vm_compute; reflexivity|].
  split; vm_compute; reflexivity.
Qed.

(* ---------------------------------------------------------------- load *)

Lemma load_total_lemma (A : Type) (o : decode_outcome A) : exists v, load o = Ok v.
Proof. destruct o; eexists; reflexivity. Qed.

Lemma load_some_iff (A : Type) (o : decode_outcome A) a : load o = Ok (Some a) <-> o = DOk a.
Proof. destruct o; cbn; split; intros H; try discriminate; congruence. Qed.

Lemma core_load_clean_lemma (A : Type) (k : fkind) (unlink_ok : bool) (o : decode_outcome A) :
  exists v still,
    core_load k unlink_ok o = (Ok v, still) /\
    (k = FRegular -> unlink_ok = true -> still = false) /\
    (k = FMissing -> still = false) /\
    (forall a, v = Some a -> o = DOk a).
Proof.
  unfold core_load, core_load_with.
  destruct o; cbn; eexists; eexists; (split; [reflexivity|]);
    (split; [intros -> ->; reflexivity|]); (split; [intros ->; reflexivity|]);
    intros x H; congruence.
Qed.

Lemma load_old_refuted_lemma :
  exists o : decode_outcome unit,
    outcome_fits FRegular o = true /\
    is_raise (load_old o) = true /\
    snd (core_load_old FRegular true o) = true.
Proof. exists DEOFError. vm_compute. auto. Qed.

Lemma replace_failure_clean_lemma s0 f tmp target pieces cuts j aftermath :
  wf s0 -> names s0 tmp = None -> fds s0 f = None -> tmp <> target ->
  forallb quiet_b aftermath = true ->
  let ops := compile no_bufs (replace_uops f tmp target pieces cuts) in
  let s' := fault_run ops j tmp aftermath s0 in
  (read s' target = read s0 target \/ read s' target = Some (concat (map fst pieces)))
  /\ names s' tmp = None
  /\ (forall p, p <> target -> p <> tmp -> names s' p = names s0 p)
  /\ (forall i, i < next s0 -> data s' i = data s0 i).
Proof.
  intros W T F N Ha ops s'. unfold s', ops, replace_uops. rewrite <- (dump_body_payload f).
  apply handled_failure_clean_lemma; try assumption; [apply dump_body_ok|reflexivity|reflexivity].
Qed.
