(* Proofs about the power-loss model of Files/AtomicFile.v (C11, C19). *)
From Coq Require Import ZArith List Bool Lia.
From Common Require Import Str Res.
From Files Require Import AtomicFile Proofs_Atomic.
Import ListNotations.
Open Scope Z_scope.

(* ---------------------------------------------------------------- soundness of the boolean *)

Lemma pl_ok_b_spec s t old new :
  pl_ok_b s t old new = true <-> (pl_read s t = old \/ pl_read s t = Some new).
Proof. unfold pl_ok_b. rewrite orb_true_iff, !obytes_eqb_eq. reflexivity. Qed.

Lemma drun_cons o t s : drun (o :: t) s = drun t (dstep s o).
Proof. reflexivity. Qed.

Lemma drun_app a b s : drun (a ++ b) s = drun b (drun a s).
Proof. unfold drun. apply fold_left_app. Qed.

Lemma pl_first_bad_none ops : forall s t old new k,
  pl_first_bad_from s ops t old new k = None <->
  (forall j : nat, pl_read (drun (firstn j ops) s) t = old \/ pl_read (drun (firstn j ops) s) t = Some new).
Proof.
  induction ops as [|o ops IH]; intros s t old new k; cbn [pl_first_bad_from].
  - destruct (pl_ok_b s t old new) eqn:E; split.
    + intros _ j. rewrite firstn_nil. apply pl_ok_b_spec, E.
    + reflexivity.
    + discriminate.
    + intros H. specialize (H 0%nat). cbn in H. apply pl_ok_b_spec in H. congruence.
  - destruct (pl_ok_b s t old new) eqn:E; split.
    + intros H j. destruct j; [cbn; apply pl_ok_b_spec, E|]. cbn [firstn]. rewrite drun_cons.
      apply (proj1 (IH _ _ _ _ _) H).
    + intros H. apply (IH (dstep s o) t old new (k + 1)). intros j. apply (H (S j)).
    + discriminate.
    + intros H. specialize (H 0%nat). cbn in H. apply pl_ok_b_spec in H. congruence.
Qed.

Lemma powerloss_atomic_exact_lemma ops target old new :
  powerloss_atomic_b ops target old new = true <->
  powerloss_atomic (dinit target old) ops target old new.
Proof.
  unfold powerloss_atomic_b, powerloss_first_bad, powerloss_atomic.
  destruct (pl_first_bad_from (dinit target old) ops target old new 0) eqn:E.
  - split; [discriminate|]. intros H. apply (proj2 (pl_first_bad_none ops (dinit target old) target old new 0)) in H. congruence.
  - split; [|reflexivity]. intros _. apply (proj1 (pl_first_bad_none _ _ _ _ _ _) E).
Qed.

(* ---------------------------------------------------------------- prefixes on dstate *)

Definition dall (P : dstate -> Prop) (ops : list kop) (s : dstate) : Prop :=
  forall k : nat, P (drun (firstn k ops) s).

Lemma dall_nil (P : dstate -> Prop) s : P s -> dall P [] s.
Proof. intros H k. rewrite firstn_nil. exact H. Qed.

Lemma dall_cons (P : dstate -> Prop) o t s : P s -> dall P t (dstep s o) -> dall P (o :: t) s.
Proof. intros H0 H k. destruct k; [exact H0|]. cbn [firstn]. rewrite drun_cons. apply H. Qed.

Lemma dall_app (P : dstate -> Prop) a b s : dall P a s -> dall P b (drun a s) -> dall P (a ++ b) s.
Proof.
  intros Ha Hb k. rewrite firstn_app, drun_app.
  destruct (Nat.le_gt_cases (length a) k) as [L|L].
  - rewrite (firstn_all2 a L). apply Hb.
  - replace (k - length a)%nat with 0%nat by lia. cbn. apply Ha.
Qed.

Lemma dall_last (P : dstate -> Prop) ops s : dall P ops s -> P (drun ops s).
Proof. intros H. specialize (H (length ops)). rewrite firstn_all in H. exact H. Qed.

Lemma dall_impl (P Q : dstate -> Prop) ops s : (forall x, P x -> Q x) -> dall P ops s -> dall Q ops s.
Proof. intros I H k. apply I, H. Qed.

Lemma dall_inv (P : dstate -> Prop) (okb : kop -> bool) :
  (forall s o, okb o = true -> P s -> P (dstep s o)) ->
  forall ops s, forallb okb ops = true -> P s -> dall P ops s.
Proof.
  intros Hstep. induction ops as [|o t IH]; intros s Hall Hs.
  - apply dall_nil, Hs.
  - cbn in Hall. apply andb_true_iff in Hall. destruct Hall as [Ho Ht].
    apply dall_cons; [exact Hs|]. apply IH; [exact Ht|]. apply Hstep; assumption.
Qed.

(* ---------------------------------------------------------------- the protocol with fsync *)

Section Durable.
  Variables (s0 : dstate) (f : Z) (tmp target : path).
  Let k0 := ks s0.
  Let n0 := next k0.
  Hypothesis Hwf : wf k0.
  Hypothesis Htmp : names k0 tmp = None.
  Hypothesis Hne : tmp <> target.
  (* every file that exists at the start is durable *)
  Hypothesis Hdur : forall i, i < n0 -> durable s0 i = data k0 i.

  (* acc: content of the temporary file; synced: an fsync of it succeeded since the last
     write; renamed: the rename happened *)
  Record dinv (acc : bytes) (synced renamed : bool) (s : dstate) : Prop := {
    di_names : forall p, names (ks s) p =
                 if renamed then (if path_eqb p target then Some n0
                                  else if path_eqb p tmp then None else names k0 p)
                 else (if path_eqb p tmp then Some n0 else names k0 p);
    di_new : data (ks s) n0 = acc;
    di_old : forall i, i < n0 -> data (ks s) i = data k0 i /\ durable s i = data k0 i;
    di_sync : synced = true -> durable s n0 = acc;
  }.

  Lemma dinv_read_before acc b s :
    dinv acc b false s -> pl_read s target = read k0 target.
  Proof.
    intros [N _ O _]. unfold pl_read, read. rewrite N.
    rewrite (path_eqb_neq target tmp) by (intros X; apply Hne; auto).
    destruct (names k0 target) as [i|] eqn:E; [|reflexivity].
    destruct (O i (Hwf _ _ E)) as [_ D]. rewrite D. reflexivity.
  Qed.

  Lemma dinv_read_after acc s : dinv acc true true s -> pl_read s target = Some acc.
  Proof.
    intros [N _ _ S]. unfold pl_read. rewrite N, path_eqb_refl. rewrite S; reflexivity.
  Qed.

  Definition wphase (acc : bytes) (s : dstate) : Prop :=
    dinv acc false false s /\ fds (ks s) f = Some (n0, length acc).

  Lemma wphase_open : wphase [] (dstep s0 (KOpen f tmp true true false)).
  Proof.
    unfold wphase, dstep. cbn [ks durable kstep]. fold k0. rewrite Htmp. cbn.
    split; [split|]; cbn.
    - intros p. unfold upd_name. reflexivity.
    - unfold upd_z. fold n0. rewrite Z.eqb_refl. reflexivity.
    - intros i Hi. unfold upd_z. fold n0. destruct (i =? n0) eqn:E; [lia|]. split; [reflexivity|apply Hdur, Hi].
    - discriminate.
    - unfold upd_z. rewrite Z.eqb_refl. reflexivity.
  Qed.

  Lemma wphase_write acc s bs : wphase acc s -> wphase (acc ++ bs) (dstep s (KWrite f bs)).
  Proof.
    intros [[N D O S] F]. unfold wphase, dstep. cbn [ks durable kstep]. rewrite F.
    split; [split|]; cbn.
    - exact N.
    - unfold upd_z. rewrite Z.eqb_refl, D. apply write_at_end.
    - intros i Hi. unfold upd_z. destruct (i =? n0) eqn:E; [lia|]. apply O, Hi.
    - discriminate.
    - unfold upd_z. rewrite Z.eqb_refl, app_length. reflexivity.
  Qed.

  Lemma wphase_writes chunks : forall acc s,
    wphase acc s ->
    dall (fun x => exists a b, dinv a b false x) (map (KWrite f) chunks) s /\
    wphase (acc ++ concat chunks) (drun (map (KWrite f) chunks) s).
  Proof.
    induction chunks as [|c t IH]; intros acc s H.
    - cbn. rewrite app_nil_r. split; [|exact H]. apply dall_nil. destruct H as [H _]. eauto.
    - cbn [map concat]. destruct (IH (acc ++ c) _ (wphase_write _ _ c H)) as [A B]. split.
      + apply dall_cons; [destruct H as [H _]; eauto|exact A].
      + rewrite drun_cons, app_assoc. exact B.
  Qed.

  (* the fsync of the temporary file right after the last write *)
  Lemma wphase_fsync acc s : wphase acc s -> dinv acc true false (dstep s (KFsync f)).
  Proof.
    intros [[N D O S] F]. unfold dstep. cbn [ks durable kstep]. rewrite F. split; cbn.
    - exact N.
    - exact D.
    - intros i Hi. unfold upd_z. destruct (i =? n0) eqn:E; [lia|]. apply O, Hi.
    - intros _. unfold upd_z. rewrite Z.eqb_refl. exact D.
  Qed.

  (* fsync / close of ANY descriptor keep a synced state synced *)
  Lemma dinv_quiet acc r s o : quiet_b o = true -> dinv acc true r s -> dinv acc true r (dstep s o).
  Proof.
    intros Q [N D O S]. destruct o; cbn in Q; try discriminate; unfold dstep; cbn [ks durable kstep].
    - (* KFsync *) split; cbn; try assumption.
      + intros i Hi. destruct (fds (ks s) f0) as [[j off]|]; [|apply O, Hi].
        unfold upd_z. destruct (i =? j) eqn:E; [|apply O, Hi].
        apply Z.eqb_eq in E. subst j. destruct (O i Hi) as [A B]. split; [exact A|exact A].
      + intros _. destruct (fds (ks s) f0) as [[j off]|]; [|apply S; reflexivity].
        unfold upd_z. destruct (n0 =? j) eqn:E; [|apply S; reflexivity].
        apply Z.eqb_eq in E. subst j. exact D.
    - (* KClose *) split; cbn; assumption.
  Qed.

  Lemma dinv_rename acc s : dinv acc true false s -> dinv acc true true (dstep s (KRename tmp target)).
  Proof.
    intros [N D O S]. unfold dstep. cbn [ks durable kstep].
    rewrite N, path_eqb_refl. split; cbn; try assumption.
    intros p. unfold upd_name. destruct (path_eqb p target); [reflexivity|].
    destruct (path_eqb p tmp) eqn:E; [reflexivity|]. rewrite N, E. reflexivity.
  Qed.

  Variables (chunks : list bytes) (mid tail : list kop).
  Hypothesis Hmid : forallb quiet_b mid = true.
  Hypothesis Htail : forallb quiet_b tail = true.

  Let new := concat chunks.
  (* create; write everything; FSYNC the temporary file; [fsync/close]*; rename; [fsync/close]* *)
  Let ops := kprotocol f tmp target chunks (KFsync f :: mid) tail.

  Definition pl_good (s : dstate) : Prop :=
    pl_read s target = read k0 target \/ pl_read s target = Some new.

  Lemma durable_protocol_sec : dall pl_good ops s0.
  Proof.
    unfold ops, kprotocol.
    assert (Start : pl_good s0).
    { left. unfold pl_read, read. fold k0. destruct (names k0 target) as [i|] eqn:E; [|reflexivity].
      rewrite Hdur; [reflexivity|]. apply (Hwf _ _ E). }
    apply dall_cons; [exact Start|].
    destruct (wphase_writes chunks [] _ wphase_open) as [A B]. cbn [app] in B.
    apply dall_app.
    - eapply dall_impl; [|exact A]. intros x (a & b & I). left. eapply dinv_read_before, I.
    - cbn [app]. apply dall_cons.
      + left. destruct B as [B _]. eapply dinv_read_before, B.
      + pose proof (wphase_fsync _ _ B) as S1. fold new in S1.
        set (s1 := dstep (drun (map (KWrite f) chunks) (dstep s0 (KOpen f tmp true true false))) (KFsync f)) in *.
        apply dall_app.
        * eapply dall_impl; [|apply (dall_inv (dinv new true false) quiet_b);
                               [intros s o; apply dinv_quiet|exact Hmid|exact S1]].
          intros x I. left. eapply dinv_read_before, I.
        * assert (S2 : dinv new true false (drun mid s1)).
          { apply (dall_last (dinv new true false)).
            apply (dall_inv (dinv new true false) quiet_b); [intros s o; apply dinv_quiet|exact Hmid|exact S1]. }
          apply dall_cons; [left; eapply dinv_read_before, S2|].
          eapply dall_impl; [|apply (dall_inv (dinv new true true) quiet_b);
                                 [intros s o; apply dinv_quiet|exact Htail|apply dinv_rename, S2]].
          intros x I. right. apply dinv_read_after, I.
  Qed.
End Durable.

(* T5: the protocol WITH an fsync of the temporary file between the last write and the
   rename is atomic even under power loss (unsynced data lost, renames durable): at every
   point the target shows the complete old or the complete new content. *)
Lemma durable_protocol_lemma s0 f tmp target chunks mid tail :
  wf (ks s0) -> names (ks s0) tmp = None -> tmp <> target ->
  (forall i, i < next (ks s0) -> durable s0 i = data (ks s0) i) ->
  forallb quiet_b mid = true -> forallb quiet_b tail = true ->
  powerloss_atomic s0 (kprotocol f tmp target chunks (KFsync f :: mid) tail) target
                   (read (ks s0) target) (concat chunks).
Proof.
  intros W T N Dd M L k.
  exact (durable_protocol_sec s0 f tmp target W T N Dd chunks mid tail M L k).
Qed.

(* storage.dump after the fix, compiled to kernel calls with a single flush, is of that
   shape; shown on the general compile for a one-piece body to keep the statement small *)
Lemma dump_powerloss_lemma s0 f tmp target data_ cuts :
  wf (ks s0) -> names (ks s0) tmp = None -> tmp <> target ->
  (forall i, i < next (ks s0) -> durable s0 i = data (ks s0) i) ->
  powerloss_atomic s0 (compile no_bufs (dump_uops f tmp target [(data_, None)] cuts)) target
                   (read (ks s0) target) data_.
Proof.
  intros W T N Dd.
  assert (E : compile no_bufs (dump_uops f tmp target [(data_, None)] cuts) =
              kprotocol f tmp target (cut cuts data_) (KFsync f :: [KClose f]) []).
  { unfold dump_uops, uprotocol, kprotocol, no_bufs. cbn. unfold upd_z. rewrite !Z.eqb_refl. reflexivity. }
  rewrite E. rewrite <- (concat_cut cuts data_) at 2.
  apply durable_protocol_lemma; auto.
Qed.

(* Without the fsync (or with its failure ignored) the same protocol is NOT atomic under
   power loss: concrete witness, the target ends up empty. *)
Lemma no_fsync_powerloss_refuted_lemma :
  let ops := kprotocol 3 w_tmp w_target [[4; 5; 6]] [KClose 3] [] in
  crash_atomic_b ops w_target (Some [1; 2]) [4; 5; 6] = true /\
  powerloss_atomic_b ops w_target (Some [1; 2]) [4; 5; 6] = false /\
  pl_read (drun ops (dinit w_target (Some [1; 2]))) w_target = Some [] /\
  powerloss_atomic_b (kprotocol 3 w_tmp w_target [[4; 5; 6]] [KFsync 3; KClose 3] []) w_target (Some [1; 2]) [4; 5; 6] = true.
Proof. vm_compute. auto. Qed.

(* storage.dump for ANY sequence of writes by the compressor and ANY automatic spills:
   its kernel calls are create, writes, fsync, close, rename *)
Lemma dump_compiles_lemma f tmp target pieces cuts :
  exists chunks,
    compile no_bufs (dump_uops f tmp target pieces cuts) =
      kprotocol f tmp target chunks [KFsync f; KClose f] [] /\
    concat chunks = concat (map fst pieces).
Proof.
  unfold dump_uops, uprotocol. cbn [compile].
  destruct (compile_body f (dump_body f pieces) (upd_z no_bufs f []) (dump_body_ok f pieces))
    as (chunks & b' & E & O & C).
  rewrite E. cbn [compile app].
  replace (cut [] (upd_z b' f [] f)) with (@nil bytes) by (unfold upd_z; rewrite Z.eqb_refl; reflexivity).
  cbn [map app].
  exists (chunks ++ cut cuts (b' f)). split.
  - unfold kprotocol. rewrite map_app, <- app_assoc. reflexivity.
  - rewrite concat_app, concat_cut, C. unfold upd_z. rewrite Z.eqb_refl. cbn [app].
    apply dump_body_payload.
Qed.

Lemma dump_powerloss_general_lemma s0 f tmp target pieces cuts :
  wf (ks s0) -> names (ks s0) tmp = None -> tmp <> target ->
  (forall i, i < next (ks s0) -> durable s0 i = data (ks s0) i) ->
  powerloss_atomic s0 (compile no_bufs (dump_uops f tmp target pieces cuts)) target
                   (read (ks s0) target) (concat (map fst pieces)).
Proof.
  intros W T N Dd. destruct (dump_compiles_lemma f tmp target pieces cuts) as (chunks & E & C).
  rewrite E, <- C. apply durable_protocol_lemma; auto.
Qed.
