(* Files/AtomicFile.v -- crash model for "write a temporary file, then rename it over the
   target" (mopidy.internal.storage.dump, mopidy.m3u.playlists.replace) and the model of
   mopidy.internal.storage.load / the file handling of Core._load_state.

   Two levels:

   * kernel level: what `strace` sees.  A state is the directory (absolute path -> inode),
     the content of every inode as held by the kernel (page cache: it survives the death
     of the process), an inode allocator and the process' descriptor table
     (descriptor -> inode, offset).  `kop` are the successful system calls that can change
     a regular file or a directory entry.  A crash after k calls leaves `run (firstn k ops)`.

   * process level (`uop`): the process additionally owns a user-space buffer per
     descriptor (Python's BufferedWriter / TextIOWrapper).  `UBufWrite` only appends to the
     buffer; `UFlush f cuts` hands the buffer to the kernel as one or more `write` calls
     (`cuts` chooses the split); `UClose` flushes and closes.  `compile` turns a process
     level program into the kernel calls it performs; whatever is still in a buffer when
     the process dies is lost simply because it never became a kernel call.

   Not modelled (see docs/C11.md): power loss (fsync is a no-op here), directories as
   objects, permissions, hard links created by other processes, concurrent writers. *)
From Coq Require Import ZArith List Bool Lia.
From Common Require Import Str Res.
Import ListNotations.
Open Scope Z_scope.

Definition bytes := list Z.
Definition path := str.            (* absolute path, as bytes *)
Definition path_eqb : path -> path -> bool := str_eqb.

Definition bytes_eqb : bytes -> bytes -> bool := str_eqb.
Definition obytes_eqb : option bytes -> option bytes -> bool := opt_eqb bytes_eqb.

(* ------------------------------------------------------------------ kernel level *)

Record kstate := mkK {
  names : path -> option Z;          (* directory entries *)
  data  : Z -> bytes;                (* inode -> content known to the kernel *)
  next  : Z;                         (* next unused inode number *)
  fds   : Z -> option (Z * nat);     (* descriptor -> (inode, offset); dies with the process *)
}.

Inductive kop :=
| KOpen (f : Z) (p : path) (creat excl trunc : bool)   (* open for writing, returned f *)
| KWrite (f : Z) (bs : bytes)                          (* write(2): at the offset, advances it *)
| KPwrite (f : Z) (off : Z) (bs : bytes)               (* pwrite64 *)
| KSeek (f : Z) (off : Z)                              (* lseek that returned off *)
| KTruncate (f : Z) (len : Z)                          (* ftruncate *)
| KFsync (f : Z)                                       (* fsync / fdatasync *)
| KRename (a b : path)                                 (* rename/renameat/renameat2 *)
| KUnlink (p : path)
| KClose (f : Z).

Definition upd_name (m : path -> option Z) (p : path) (v : option Z) : path -> option Z :=
  fun q => if path_eqb q p then v else m q.
Definition upd_z {A} (m : Z -> A) (k : Z) (v : A) : Z -> A :=
  fun j => if j =? k then v else m j.

Definition pad (n : nat) (b : bytes) : bytes := b ++ repeat 0 (n - length b).
Definition write_at (off : nat) (bs old : bytes) : bytes :=
  firstn off (pad off old) ++ bs ++ skipn (off + length bs) old.
Definition truncate_to (n : nat) (old : bytes) : bytes := firstn n (pad n old).

Definition kstep (s : kstate) (o : kop) : kstate :=
  match o with
  | KOpen f p creat excl trunc =>
      match names s p with
      | Some i =>
          if creat && excl then s   (* EEXIST: such a call is never in a trace of successes *)
          else mkK (names s) (if trunc then upd_z (data s) i [] else data s) (next s)
                   (upd_z (fds s) f (Some (i, 0%nat)))
      | None =>
          if creat then
            mkK (upd_name (names s) p (Some (next s))) (upd_z (data s) (next s) [])
                (next s + 1) (upd_z (fds s) f (Some (next s, 0%nat)))
          else s
      end
  | KWrite f bs =>
      match fds s f with
      | Some (i, off) =>
          mkK (names s) (upd_z (data s) i (write_at off bs (data s i))) (next s)
              (upd_z (fds s) f (Some (i, (off + length bs)%nat)))
      | None => s
      end
  | KPwrite f off bs =>
      match fds s f with
      | Some (i, _) =>
          mkK (names s) (upd_z (data s) i (write_at (Z.to_nat off) bs (data s i))) (next s) (fds s)
      | None => s
      end
  | KSeek f off =>
      match fds s f with
      | Some (i, _) => mkK (names s) (data s) (next s) (upd_z (fds s) f (Some (i, Z.to_nat off)))
      | None => s
      end
  | KTruncate f len =>
      match fds s f with
      | Some (i, _) =>
          mkK (names s) (upd_z (data s) i (truncate_to (Z.to_nat len) (data s i))) (next s) (fds s)
      | None => s
      end
  | KFsync _ => s
  | KRename a b =>
      match names s a with
      | Some i => mkK (upd_name (upd_name (names s) a None) b (Some i)) (data s) (next s) (fds s)
      | None => s
      end
  | KUnlink p => mkK (upd_name (names s) p None) (data s) (next s) (fds s)
  | KClose f => mkK (names s) (data s) (next s) (upd_z (fds s) f None)
  end.

Definition run (ops : list kop) (s : kstate) : kstate := fold_left kstep ops s.

(* What a reader finds under a name. *)
Definition read (s : kstate) (p : path) : option bytes :=
  match names s p with Some i => Some (data s i) | None => None end.

(* The disk after a crash that happens when k kernel calls have completed. *)
Definition crash (ops : list kop) (k : nat) (s0 : kstate) : kstate := run (firstn k ops) s0.

(* A start state in which `target` holds `old` (None: no such file) and nothing else exists. *)
Definition init (target : path) (old : option bytes) : kstate :=
  match old with
  | Some b => mkK (upd_name (fun _ => None) target (Some 1)) (upd_z (fun _ => []) 1 b) 2 (fun _ => None)
  | None => mkK (fun _ => None) (fun _ => []) 2 (fun _ => None)
  end.

(* --- the property predicate, as a boolean that is also evaluated on real traces --- *)

Definition atomic_ok_b (s : kstate) (target : path) (old : option bytes) (new : bytes) : bool :=
  obytes_eqb (read s target) old || obytes_eqb (read s target) (Some new).

Fixpoint atomic_from (s : kstate) (ops : list kop) (target : path) (old : option bytes)
         (new : bytes) : bool :=
  atomic_ok_b s target old new &&
  match ops with
  | [] => true
  | o :: t => atomic_from (kstep s o) t target old new
  end.

Definition crash_atomic_b (ops : list kop) (target : path) (old : option bytes) (new : bytes) : bool :=
  atomic_from (init target old) ops target old new.

Definition completes_b (ops : list kop) (target : path) (old : option bytes) (new : bytes) : bool :=
  obytes_eqb (read (run ops (init target old)) target) (Some new).

(* The index (number of completed calls) of the first crash point at which the target is
   neither old nor new; used to report a failing crash point. *)
Fixpoint first_bad_from (s : kstate) (ops : list kop) target old new (k : Z) : option Z :=
  if atomic_ok_b s target old new then
    match ops with
    | [] => None
    | o :: t => first_bad_from (kstep s o) t target old new (k + 1)
    end
  else Some k.
Definition first_bad_crash ops target old new := first_bad_from (init target old) ops target old new 0.

Definition atomic_at (s : kstate) (target : path) (old : option bytes) (new : bytes) : Prop :=
  read s target = old \/ read s target = Some new.

Definition crash_atomic (s0 : kstate) (ops : list kop) target old new : Prop :=
  forall k : nat, atomic_at (crash ops k s0) target old new.

(* --- the protocol: create temp (O_EXCL), write all data, [fsync/close], rename --- *)

Definition quiet_b (o : kop) : bool :=        (* calls that change no content and no name *)
  match o with KFsync _ | KClose _ => true | _ => false end.

Definition kprotocol (f : Z) (tmp target : path) (chunks : list bytes) (mid tail : list kop) : list kop :=
  KOpen f tmp true true false :: map (KWrite f) chunks ++ mid ++ KRename tmp target :: tail.

(* Directory part of an absolute path: everything up to the last '/'. *)
Fixpoint dirname_aux (acc cur : str) (p : str) : str :=
  match p with
  | [] => rev acc
  | c :: t => if c =? 47 then dirname_aux (c :: cur ++ acc) [] t else dirname_aux acc (c :: cur) t
  end.
Definition dirname (p : path) : str := dirname_aux [] [] p.

(* Recognizer for the protocol shape on a (translated) kernel trace. *)
Fixpoint shape_tail (ops : list kop) : bool :=
  match ops with [] => true | o :: t => quiet_b o && shape_tail t end.
Fixpoint shape_mid (tmp target : path) (ops : list kop) : bool :=
  match ops with
  | KRename a b :: t => path_eqb a tmp && path_eqb b target && shape_tail t
  | o :: t => quiet_b o && shape_mid tmp target t
  | [] => false
  end.
Fixpoint shape_writes (f : Z) (tmp target : path) (ops : list kop) : bool :=
  match ops with
  | KWrite g _ :: t => (g =? f) && shape_writes f tmp target t
  | _ => shape_mid tmp target ops
  end.
Definition protocol_shape_b (ops : list kop) (target : path) : bool :=
  match ops with
  | KOpen f tmp true true false :: t =>
      negb (path_eqb tmp target) && str_eqb (dirname tmp) (dirname target)
      && shape_writes f tmp target t
  | _ => false
  end.

Definition shape_tmp (ops : list kop) : path :=
  match ops with KOpen _ tmp _ _ _ :: _ => tmp | _ => [] end.

Fixpoint written (f : Z) (ops : list kop) : bytes :=   (* data of the leading writes *)
  match ops with
  | KWrite g bs :: t => if g =? f then bs ++ written f t else []
  | _ => []
  end.
Definition shape_new (ops : list kop) : bytes :=
  match ops with KOpen f _ _ _ _ :: t => written f t | _ => [] end.

(* Handled failure: the call with index j fails (so exactly the first j calls happened),
   then the error handler removes the temporary file; afterwards (garbage collection,
   `finally: fp.close()`) the process may still write to / close its descriptors. *)
Definition after_fault_b (f : Z) (o : kop) : bool :=
  match o with KWrite g _ => g =? f | KFsync _ | KClose _ => true | _ => false end.
Definition fault_run (ops : list kop) (j : nat) (tmp : path) (aftermath : list kop) (s0 : kstate) : kstate :=
  run aftermath (kstep (crash ops j s0) (KUnlink tmp)).

(* Outcome classes used by the correspondence with real fault injection. *)
Definition class_of (s : kstate) (target : path) (old : option bytes) (new : bytes) : Z :=
  if obytes_eqb (read s target) old then 0 else if obytes_eqb (read s target) (Some new) then 1 else 2.

(* ------------------------------------------------------------------ process level *)

Inductive uop :=
| UCreate (f : Z) (p : path)           (* mkstemp / NamedTemporaryFile: O_CREAT|O_EXCL *)
| UBufWrite (f : Z) (bs : bytes)       (* file.write: into the user-space buffer *)
| UFlush (f : Z) (cuts : list nat)     (* file.flush: one or more write(2) calls *)
| UFsync (f : Z)
| URename (a b : path)
| UUnlink (p : path)
| UClose (f : Z) (cuts : list nat).    (* file.close: flush, then close(2) *)

(* Split b into non-empty pieces of sizes cuts(0)+1, cuts(1)+1, ...; the rest is one piece.
   An empty buffer gives no write call at all. *)
Fixpoint cut (cuts : list nat) (b : bytes) : list bytes :=
  match b with
  | [] => []
  | _ :: _ =>
      match cuts with
      | [] => [b]
      | n :: cs => firstn (S n) b :: cut cs (skipn (S n) b)
      end
  end.

Fixpoint compile (b : Z -> bytes) (us : list uop) : list kop :=
  match us with
  | [] => []
  | UCreate f p :: t => KOpen f p true true false :: compile (upd_z b f []) t
  | UBufWrite f bs :: t => compile (upd_z b f (b f ++ bs)) t
  | UFlush f cuts :: t => map (KWrite f) (cut cuts (b f)) ++ compile (upd_z b f []) t
  | UFsync f :: t => KFsync f :: compile b t
  | URename a c :: t => KRename a c :: compile b t
  | UUnlink p :: t => KUnlink p :: compile b t
  | UClose f cuts :: t => map (KWrite f) (cut cuts (b f)) ++ KClose f :: compile (upd_z b f []) t
  end.

Definition no_bufs : Z -> bytes := fun _ => [].

Definition body_b (f : Z) (u : uop) : bool :=
  match u with UBufWrite g _ | UFlush g _ => g =? f | _ => false end.
Definition uquiet_b (u : uop) : bool :=
  match u with UFsync _ | UClose _ _ => true | _ => false end.

Fixpoint payload (us : list uop) : bytes :=
  match us with
  | UBufWrite _ bs :: t => bs ++ payload t
  | _ :: t => payload t
  | [] => []
  end.

(* create temp; any interleaving of buffered writes and (automatic or explicit) flushes;
   a final flush of everything; optional fsync/close; rename; then only fsync/close. *)
Definition uprotocol (f : Z) (tmp target : path) (body : list uop) (cuts : list nat)
           (mid tail : list uop) : list uop :=
  UCreate f tmp :: body ++ UFlush f cuts :: mid ++ URename tmp target :: tail.

(* storage.dump after the fix: NamedTemporaryFile(delete=False); gzip data written through
   the buffered file; flush; fsync; close; rename.  `pieces` are the successive
   file.write() calls made by GzipFile (header, deflate blocks, trailer: an oracle),
   `auto` says after which of them the BufferedWriter spilled by itself. *)
Fixpoint dump_body (f : Z) (pieces : list (bytes * option (list nat))) : list uop :=
  match pieces with
  | [] => []
  | (bs, None) :: t => UBufWrite f bs :: dump_body f t
  | (bs, Some cuts) :: t => UBufWrite f bs :: UFlush f cuts :: dump_body f t
  end.
Definition dump_uops (f : Z) (tmp target : path) (pieces : list (bytes * option (list nat)))
           (cuts : list nat) : list uop :=
  uprotocol f tmp target (dump_body f pieces) cuts [UFsync f; UClose f []] [].

(* storage.dump before the fix (commit recorded in known_findings.json): the temporary
   file object is neither flushed nor closed before the rename; its buffer reaches the
   kernel when the object is garbage collected after dump returns. *)
Definition dump_old_uops (f : Z) (tmp target : path) (pieces : list (bytes * option (list nat)))
           (cuts : list nat) : list uop :=
  UCreate f tmp :: dump_body f pieces ++ [URename tmp target; UClose f cuts].

(* m3u.playlists.replace(): mkstemp; the body writes through a TextIOWrapper; flush; fsync;
   rename; close. *)
Definition replace_uops (f : Z) (tmp target : path) (pieces : list (bytes * option (list nat)))
           (cuts : list nat) : list uop :=
  uprotocol f tmp target (dump_body f pieces) cuts [UFsync f] [UClose f []].

(* ------------------------------------------------------------------ load side *)

(* Outcome of opening, gunzipping and validating the file: an oracle (gzip, zlib,
   pydantic are not modelled).  `A` is the type of decoded states. *)
Inductive decode_outcome (A : Type) :=
| NotAFile                 (* path.is_file() is false: missing, a directory, ... *)
| DOSError                 (* OSError, incl. gzip.BadGzipFile *)
| DEOFError                (* truncated gzip stream *)
| DZlibError               (* zlib.error: corrupt deflate data *)
| DValueError              (* not JSON / wrong schema (pydantic ValidationError), bad UTF-8 *)
| DTypeError               (* wrong schema met by a model's custom __init__ (TlTrack without tlid/track) *)
| DOk (a : A).
Arguments NotAFile {A}. Arguments DOSError {A}. Arguments DEOFError {A}.
Arguments DZlibError {A}. Arguments DValueError {A}. Arguments DTypeError {A}. Arguments DOk {A} a.

Inductive exn := ExOSError | ExEOFError | ExZlibError | ExValueError | ExTypeError.

(* storage.load: `except (OSError, ValueError, EOFError, zlib.error, TypeError)` -> None *)
Definition load {A} (o : decode_outcome A) : res exn (option A) :=
  match o with
  | NotAFile | DOSError | DEOFError | DZlibError | DValueError | DTypeError => Ok None
  | DOk a => Ok (Some a)
  end.

(* storage.load before the second fix: TypeError was not caught *)
Definition load_no_typeerror {A} (o : decode_outcome A) : res exn (option A) :=
  match o with
  | DTypeError => Raise ExTypeError
  | _ => load o
  end.

(* storage.load before the fix: `except (OSError, ValueError)` only *)
Definition load_old {A} (o : decode_outcome A) : res exn (option A) :=
  match o with
  | NotAFile | DOSError | DValueError => Ok None
  | DEOFError => Raise ExEOFError
  | DZlibError => Raise ExZlibError
  | DTypeError => Raise ExTypeError
  | DOk a => Ok (Some a)
  end.

Inductive fkind := FMissing | FDirectory | FRegular.

(* Which outcomes are possible for which kind of directory entry. *)
Definition outcome_fits {A} (k : fkind) (o : decode_outcome A) : bool :=
  match k, o with
  | FRegular, NotAFile => false
  | FRegular, _ => true
  | _, NotAFile => true
  | _, _ => false
  end.

(* File handling of Core._load_state: data = storage.load(file); then
   `try: file.unlink() except OSError: pass`; the decoded state (if any) is applied by the
   controllers (C10).  Result: what load returned and whether the entry still exists.
   `unlink_ok`: the unlink system call succeeds (it cannot for a directory). *)
Definition core_load_with {A} (ld : decode_outcome A -> res exn (option A))
           (k : fkind) (unlink_ok : bool) (o : decode_outcome A) : res exn (option A) * bool :=
  match ld o with
  | Ok v =>
      let still_there :=
        match k with
        | FMissing => false
        | FDirectory => true
        | FRegular => negb unlink_ok
        end in
      (Ok v, still_there)
  | Raise e => (Raise e, match k with FMissing => false | _ => true end)
  | Diverge => (Diverge, true)
  end.
Definition core_load {A} := @core_load_with A load.
Definition core_load_old {A} := @core_load_with A load_old.

(* ------------------------------------------------------------------ evaluation helpers
   (used by the generated correspondence files; no theorem depends on them) *)

Fixpoint lookup_idx (p : path) (l : list (path * bytes)) (i : Z) : option Z :=
  match l with
  | [] => None
  | (q, _) :: t => if path_eqb p q then Some i else lookup_idx p t (i + 1)
  end.

(* A start state holding exactly the given files. *)
Definition init_files (l : list (path * bytes)) : kstate :=
  mkK (fun p => lookup_idx p l 1)
      (fun i => nth (Z.to_nat (i - 1)) (map snd l) [])
      (Z.of_nat (length l) + 1)
      (fun _ => None).

Fixpoint assoc_path (p : path) (l : list (path * bytes)) : option bytes :=
  match l with
  | [] => None
  | (q, b) :: t => if path_eqb p q then Some b else assoc_path p t
  end.

(* The model's directory after `ops`, restricted to the candidate names, equals `actual`. *)
Definition listing_ok (ops : list kop) (files : list (path * bytes)) (cands : list path)
           (actual : list (path * bytes)) : bool :=
  let s := run ops (init_files files) in
  forallb (fun p => obytes_eqb (read s p) (assoc_path p actual)) cands.

Definition old_of (target : path) (files : list (path * bytes)) : option bytes := assoc_path target files.

Definition atomic_files_b (ops : list kop) (files : list (path * bytes)) (target : path) (new : bytes) : bool :=
  atomic_from (init_files files) ops target (old_of target files) new.

(* Prediction for a handled failure at call j of a protocol-shaped trace: class of the
   target afterwards (0 old, 1 new, 2 neither) and whether any candidate name other than
   the target exists. *)
Definition fault_prediction (ops : list kop) (j : nat) (target : path) (old : option bytes)
           (cands : list path) : Z * bool :=
  let s := fault_run ops j (shape_tmp ops) [] (init target old) in
  (class_of s target old (shape_new ops),
   forallb (fun p => path_eqb p target || match names s p with None => true | Some _ => false end) cands).

(* Compact transport of long byte strings in generated files: 6 bytes per word,
   little endian; `unpack len words` restores the byte list. *)
Fixpoint unpack_word (n : nat) (w : Z) : bytes :=
  match n with
  | O => []
  | S k => (w mod 256) :: unpack_word k (w / 256)
  end.
Definition unpack (len : Z) (ws : list Z) : bytes :=
  firstn (Z.to_nat len) (flat_map (unpack_word 6) ws).

(* ------------------------------------------------------------------ power loss
   A second, stronger crash model.  File CONTENT is durable only once an fsync on that
   file has succeeded; directory operations (create, rename, unlink, truncation) are
   durable at once (metadata journalling).  After a power loss a name shows the durable
   content of its inode: data that was written but never fsynced is gone.
   `durable` maps an inode to the content a power loss would leave. *)
Record dstate := mkDS { ks : kstate; durable : Z -> bytes }.

Definition dstep (s : dstate) (o : kop) : dstate :=
  mkDS (kstep (ks s) o)
       (match o with
        | KFsync f =>
            match fds (ks s) f with
            | Some (i, _) => upd_z (durable s) i (data (ks s) i)
            | None => durable s
            end
        | KOpen f p creat excl trunc =>
            match names (ks s) p with
            | Some i => if creat && excl then durable s
                        else if trunc then upd_z (durable s) i [] else durable s
            | None => if creat then upd_z (durable s) (next (ks s)) [] else durable s
            end
        | KTruncate f len =>
            match fds (ks s) f with
            | Some (i, _) => upd_z (durable s) i (truncate_to (Z.to_nat len) (durable s i))
            | None => durable s
            end
        | _ => durable s
        end).

Definition drun (ops : list kop) (s : dstate) : dstate := fold_left dstep ops s.

(* what a reader finds under a name after a power loss *)
Definition pl_read (s : dstate) (p : path) : option bytes :=
  match names (ks s) p with Some i => Some (durable s i) | None => None end.

(* every file that exists at the start is durable *)
Definition dinit (target : path) (old : option bytes) : dstate :=
  mkDS (init target old) (data (init target old)).
Definition dinit_files (l : list (path * bytes)) : dstate :=
  mkDS (init_files l) (data (init_files l)).

Definition pl_ok_b (s : dstate) (target : path) (old : option bytes) (new : bytes) : bool :=
  obytes_eqb (pl_read s target) old || obytes_eqb (pl_read s target) (Some new).

Fixpoint pl_first_bad_from (s : dstate) (ops : list kop) target old new (k : Z) : option Z :=
  if pl_ok_b s target old new then
    match ops with
    | [] => None
    | o :: t => pl_first_bad_from (dstep s o) t target old new (k + 1)
    end
  else Some k.

(* None: a power loss after any number of completed calls leaves the old or the new state *)
Definition powerloss_first_bad (ops : list kop) target old new : option Z :=
  pl_first_bad_from (dinit target old) ops target old new 0.
Definition powerloss_atomic_b (ops : list kop) target old new : bool :=
  match powerloss_first_bad ops target old new with None => true | Some _ => false end.

Definition powerloss_atomic (s0 : dstate) (ops : list kop) target old new : Prop :=
  forall k : nat,
    pl_read (drun (firstn k ops) s0) target = old \/
    pl_read (drun (firstn k ops) s0) target = Some new.

(* ------------------------------------------------------------------ the decoder in stages
   storage.load = is_file?  ->  gzip.open(...).read()  ->  StoredState.model_validate_json.
   Both libraries are oracles; their failure classes are enumerated per stage. *)
Inductive gz_outcome :=
| GzOSError              (* not a gzip file, bad CRC/length (gzip.BadGzipFile), read error *)
| GzEOF                  (* EOFError: stream ends before the end-of-stream marker *)
| GzZlib                 (* zlib.error: corrupt deflate data *)
| GzOk (payload : bytes).
Inductive js_outcome (A : Type) :=
| JsValueError           (* bad UTF-8, not JSON, wrong schema: pydantic ValidationError *)
| JsTypeError            (* wrong schema met by a model's custom __init__: TypeError *)
| JsOk (a : A).
Arguments JsValueError {A}. Arguments JsTypeError {A}. Arguments JsOk {A} a.

Definition decode_stages {A} (gunzip : bytes -> gz_outcome) (validate : bytes -> js_outcome A)
           (b : bytes) : decode_outcome A :=
  match gunzip b with
  | GzOSError => DOSError
  | GzEOF => DEOFError
  | GzZlib => DZlibError
  | GzOk p => match validate p with JsValueError => DValueError | JsTypeError => DTypeError | JsOk a => DOk a end
  end.

(* storage.load applied to what is found under the name (None: no regular file there) *)
Definition load_file {A} (gunzip : bytes -> gz_outcome) (validate : bytes -> js_outcome A)
           (content : option bytes) : res exn (option A) :=
  match content with
  | None => load NotAFile
  | Some b => load (decode_stages gunzip validate b)
  end.

(* the session the core starts with: the restored one, or the defaults *)
Definition session_of {A} (default : A) (r : res exn (option A)) : A :=
  match r with Ok (Some a) => a | _ => default end.

(* ------------------------------------------------------------------ save() with rename (C19)
   replace(orig) followed by rename orig -> newp *)
Definition save_rename_ops (f : Z) (tmp orig newp : path) (chunks : list bytes)
           (mid tail tail2 : list kop) : list kop :=
  kprotocol f tmp orig chunks mid tail ++ KRename orig newp :: tail2.

(* the three states a reader may find: nothing happened yet / new content under the old
   name / new content under the new name (the old name is gone) *)
Definition save_rename_good (s0 : kstate) (orig newp : path) (new : bytes) (s : kstate) : Prop :=
  (read s orig = read s0 orig /\ read s newp = read s0 newp) \/
  (read s orig = Some new /\ read s newp = read s0 newp) \/
  (read s orig = None /\ read s newp = Some new).

(* boolean version, evaluated on real traces *)
Definition save_rename_ok_b (s0 s : kstate) (orig newp : path) (new : bytes) : bool :=
  (obytes_eqb (read s orig) (read s0 orig) && obytes_eqb (read s newp) (read s0 newp)) ||
  (obytes_eqb (read s orig) (Some new) && obytes_eqb (read s newp) (read s0 newp)) ||
  (obytes_eqb (read s orig) None && obytes_eqb (read s newp) (Some new)).

Fixpoint save_rename_first_bad (s0 s : kstate) (ops : list kop) orig newp new (k : Z) : option Z :=
  if save_rename_ok_b s0 s orig newp new then
    match ops with
    | [] => None
    | o :: t => save_rename_first_bad s0 (kstep s o) t orig newp new (k + 1)
    end
  else Some k.


(* ------------------------------------------------------------------ restoring = load ; unlink ; apply
   Core._load_state: data = storage.load(file); unlink (errors ignored); then the controllers
   apply the state, which may raise for a state that parses but cannot be applied (mixer volume
   250, ...: ValidationError).  `apply_raises` is that outcome (the controllers are C10's
   subject).  The file is consumed BEFORE applying. *)
Definition core_restore {A} (k : fkind) (unlink_ok apply_raises : bool) (o : decode_outcome A)
  : res exn (option A) * bool :=
  match core_load k unlink_ok o with
  | (Ok (Some a), still) => if apply_raises then (Raise ExValueError, still) else (Ok (Some a), still)
  | r => r
  end.

(* the other order (apply first, unlink only afterwards): an unappliable state is never consumed *)
Definition core_restore_late_unlink {A} (k : fkind) (unlink_ok apply_raises : bool) (o : decode_outcome A)
  : res exn (option A) * bool :=
  match load o with
  | Ok (Some a) =>
      if apply_raises then (Raise ExValueError, match k with FMissing => false | _ => true end)
      else core_load k unlink_ok o
  | _ => core_load k unlink_ok o
  end.
