(* Proofs about Files/Fs.v (C16). *)
From Coq Require Import ZArith List Bool Lia.
From Common Require Import Str Res.
From Files Require Import M3u Fs.
Import ListNotations.
Open Scope Z_scope.

(* ---------------------------------------------------------------- resolution composes *)

Lemma walk_nil km fs fuel cur : walk km fs fuel cur [] = Some (cur, fuel).
Proof. destruct fuel; reflexivity. Qed.

Lemma walk_app km fs : forall fuel cur a rest,
  walk km fs fuel cur (a ++ rest) =
  match walk km fs fuel cur a with Some (d, f') => walk km fs f' d rest | None => None end.
Proof.
  induction fuel as [|k IH]; intros cur a rest.
  - destruct a; [rewrite walk_nil; reflexivity|reflexivity].
  - destruct a as [|c t]; [rewrite walk_nil; reflexivity|].
    cbn [app walk].
    destruct (km && negb (dir_at fs cur)); [reflexivity|].
    destruct (is_dot c); [apply IH|].
    destruct (str_eqb c DOTDOT); [apply IH|].
    destruct (lookup_node fs (cur ++ [c])) as [[| |tgt abs]|]; try apply IH.
    rewrite app_assoc. apply IH.
Qed.

(* last-component rule: an ordinary last component that is not a symbolic link is simply
   appended to the resolved parent *)
Lemma walk_snoc fs fuel cur dirp b d f' :
  walk false fs fuel cur dirp = Some (d, S f') ->
  is_dot b = false -> str_eqb b DOTDOT = false -> is_link_at fs d b = false ->
  walk false fs fuel cur (dirp ++ [b]) = Some (d ++ [b], f').
Proof.
  intros W Hd Hdd Hl. rewrite walk_app, W. cbn [walk andb]. rewrite Hd, Hdd.
  unfold is_link_at in Hl.
  destruct (lookup_node fs (d ++ [b])) as [[| |tgt abs]|]; try discriminate; apply walk_nil.
Qed.

Lemma walk_dotdot fs fuel cur dirp d f' :
  walk false fs fuel cur dirp = Some (d, S f') ->
  walk false fs fuel cur (dirp ++ [DOTDOT]) = Some (removelast d, f').
Proof. intros W. rewrite walk_app, W. cbn [walk andb]. cbn. apply walk_nil. Qed.

(* ---------------------------------------------------------------- prefixes *)

Lemma path_eqb_eq a b : path_eqb a b = true <-> a = b.
Proof. apply list_eqb_spec. intros x y. apply str_eqb_eq. Qed.

Lemma is_prefix_refl a : is_prefix a a = true.
Proof.
  induction a as [|x a IH]; [reflexivity|]. cbn. rewrite IH, andb_true_r. apply str_eqb_eq. reflexivity.
Qed.

Lemma is_prefix_snoc b : forall d x,
  is_prefix b (d ++ [x]) = true -> path_eqb (d ++ [x]) b = false -> is_prefix b d = true.
Proof.
  induction b as [|y b IH]; intros d x P N; [reflexivity|].
  destruct d as [|z d]; cbn in *.
  - apply andb_true_iff in P. destruct P as [E P]. destruct b; [|discriminate].
    apply str_eqb_eq in E. subst. unfold path_eqb in N. cbn in N.
    assert (str_eqb x x = true) by (apply str_eqb_eq; reflexivity).
    rewrite H in N. discriminate.
  - apply andb_true_iff in P. destruct P as [E P]. rewrite E. cbn.
    apply str_eqb_eq in E. subst z. unfold path_eqb in N. cbn in N.
    assert (str_eqb y y = true) by (apply str_eqb_eq; reflexivity).
    rewrite H in N. cbn in N. apply (IH d x P N).
Qed.

Lemma is_prefix_removelast b : forall d, is_prefix b (removelast d) = true -> is_prefix b d = true.
Proof.
  induction b as [|y b IH]; intros d P; [reflexivity|].
  destruct d as [|z d]; [discriminate|]. destruct d as [|z' d]; [discriminate|].
  cbn [removelast] in P. cbn [is_prefix] in *. apply andb_true_iff in P. destruct P as [E P].
  rewrite E. cbn. apply IH. exact P.
Qed.

Lemma is_prefix_drop_last b r :
  is_prefix b r = true -> path_eqb r b = false -> is_prefix b (removelast r) = true.
Proof.
  intros P N. destruct (exists_last (l := r)) as (d & x & ->).
  - intros ->. destruct b; [|discriminate]. discriminate.
  - rewrite removelast_last. eapply is_prefix_snoc; eassumption.
Qed.

(* ---------------------------------------------------------------- the guard *)

Lemma resolve_ok fs p r : resolve fs p = Ok r -> realpath fs p = Some r.
Proof.
  unfold resolve. destruct (has_nul p); [discriminate|].
  destruct (realpath fs p) as [x|]; [|discriminate].
  destruct (too_long fs x); [discriminate|]. intros H. injection H as ->. reflexivity.
Qed.

Lemma realpath_of_walk fs p d f : walk false fs FUEL [] p = Some (d, f) -> realpath fs p = Some d.
Proof. intros H. unfold realpath. rewrite H. reflexivity. Qed.

(* what a passing guard says about the resolved path *)
Lemma guard_true fs base p bb :
  resolve fs base = Ok bb -> m3u_guard fs base p = Ok true ->
  exists r, resolve fs p = Ok r /\ path_eqb r bb = false /\
            is_prefix bb (if is_file fs r then removelast r else r) = true.
Proof.
  intros B G. unfold m3u_guard in G. destruct (resolve fs p) as [r| |]; try discriminate.
  cbn [rbind] in G. rewrite B in G. cbn [rbind] in G.
  exists r. split; [reflexivity|]. destruct (path_eqb r bb); [discriminate|]. split; [reflexivity|].
  injection G as G. exact G.
Qed.

(* reads: whatever path is looked up, a file that is read lies inside the playlists dir *)
Lemma guard_read_inside fs base p bb r :
  resolve fs base = Ok bb -> m3u_guard fs base p = Ok true -> resolve fs p = Ok r ->
  is_prefix bb (removelast r) = true.
Proof.
  intros B G R. destruct (guard_true fs base p bb B G) as (r' & R' & N & P).
  rewrite R in R'. injection R' as <-.
  destruct (is_file fs r); [exact P|]. apply is_prefix_drop_last; assumption.
Qed.

(* T1 core: the directory whose entry (.., b) is created / replaced / renamed / removed *)
Lemma guard_entry_inside fs base dirp b d f' bb :
  walk false fs FUEL [] dirp = Some (d, S f') ->
  resolve fs base = Ok bb ->
  m3u_guard fs base (dirp ++ [b]) = Ok true ->
  is_dot b = false ->
  (is_link_at fs d b = true -> is_prefix bb d = true) ->
  is_prefix bb d = true.
Proof.
  intros W B G Hd Scope.
  destruct (guard_true fs base _ bb B G) as (r & R & N & P).
  apply resolve_ok in R.
  destruct (str_eqb b DOTDOT) eqn:Hdd.
  - (* p = dirp/.. : resolves to the parent of d *)
    apply str_eqb_eq in Hdd. subst b.
    rewrite (realpath_of_walk _ _ _ _ (walk_dotdot fs FUEL [] dirp d f' W)) in R. injection R as <-.
    destruct (is_file fs (removelast d)); [apply is_prefix_removelast|]; apply is_prefix_removelast; exact P.
  - destruct (is_link_at fs d b) eqn:Hl; [apply Scope; reflexivity|].
    rewrite (realpath_of_walk _ _ _ _ (walk_snoc fs FUEL [] dirp b d f' W Hd Hdd Hl)) in R. injection R as <-.
    rewrite removelast_last in P.
    destruct (is_file fs (d ++ [b])); [exact P|]. eapply is_prefix_snoc; eassumption.
Qed.

Lemma parent_snoc dirp b : parent (dirp ++ [b]) = dirp.
Proof. apply removelast_last. Qed.
Lemma base_name_snoc dirp b : base_name (dirp ++ [b]) = b.
Proof. apply last_last. Qed.

Lemma resolve_parent fs dirp d f r :
  walk false fs FUEL [] dirp = Some (d, f) -> resolve fs dirp = Ok r -> r = d.
Proof. intros W R. apply resolve_ok in R. rewrite (realpath_of_walk _ _ _ _ W) in R. congruence. Qed.

Section M3uConfined.
  Variables (fs : node) (base dirp : path) (b : name) (d : path) (f' : nat) (bb : path).
  Hypothesis W : walk false fs FUEL [] dirp = Some (d, S f').
  Hypothesis B : resolve fs base = Ok bb.
  Hypothesis Hd : is_dot b = false.
  (* the scope of the property: if the URI names a symbolic link, the link itself is
     placed inside the playlists directory *)
  Hypothesis Scope : is_link_at fs d b = true -> is_prefix bb d = true.

  Let p := dirp ++ [b].

  Lemma with_guard_acts k l :
    with_guard m3u_guard fs base p k = Acts l -> m3u_guard fs base p = Ok true /\ k = Ok l.
  Proof.
    unfold with_guard. destruct (m3u_guard fs base p) as [[|]| |]; try discriminate.
    destruct k; try discriminate. intros H. injection H as ->. auto.
  Qed.

  Lemma delete_confined_sec l :
    m3u_delete fs base p = Acts l -> Forall (fun t => touch_inside bb t = true) l.
  Proof.
    unfold m3u_delete, m3u_delete_with. intros H. apply with_guard_acts in H. destruct H as [G K].
    unfold entry_of, p in K. rewrite parent_snoc, base_name_snoc in K.
    destruct (resolve fs dirp) as [r| |] eqn:R; try discriminate. cbn in K. injection K as <-.
    rewrite (resolve_parent fs dirp d _ r W R).
    constructor; [|constructor]. cbn. eapply guard_entry_inside; eassumption.
  Qed.

  Lemma save_confined_sec l :
    m3u_save fs base p = Acts l -> Forall (fun t => touch_inside bb t = true) l.
  Proof.
    unfold m3u_save, m3u_save_with. intros H. apply with_guard_acts in H. destruct H as [G K].
    unfold p in K. rewrite parent_snoc, base_name_snoc in K.
    destruct (resolve fs dirp) as [r| |] eqn:R; try discriminate. cbn in K. injection K as <-.
    rewrite (resolve_parent fs dirp d _ r W R).
    assert (I : is_prefix bb d = true) by (eapply guard_entry_inside; eassumption).
    repeat constructor; exact I.
  Qed.

  Lemma rename_confined_sec newname l :
    is_dot newname = false ->
    m3u_rename fs base p newname = Acts l -> Forall (fun t => touch_inside bb t = true) l.
  Proof.
    unfold m3u_rename, m3u_rename_with, rename_target. intros Hnd H. rewrite Hnd in H. apply with_guard_acts in H. destruct H as [G K].
    unfold p in K. rewrite parent_snoc, base_name_snoc in K.
    destruct (resolve fs dirp) as [r| |] eqn:R; try discriminate. cbn [rbind] in K.
    rewrite B in K. cbn in K. injection K as <-.
    rewrite (resolve_parent fs dirp d _ r W R).
    assert (I : is_prefix bb d = true) by (eapply guard_entry_inside; eassumption).
    repeat constructor; try exact I. cbn. apply is_prefix_refl.
  Qed.
End M3uConfined.

(* lookup / get_items: for EVERY path, without any hypothesis on links *)
Lemma lookup_confined_lemma fs base p bb l :
  resolve fs base = Ok bb -> m3u_lookup fs base p = Acts l ->
  Forall (fun t => touch_inside bb t = true) l.
Proof.
  intros B H. unfold m3u_lookup, m3u_lookup_with, with_guard in H.
  destruct (m3u_guard fs base p) as [[|]| |] eqn:G; try discriminate.
  destruct (resolve fs p) as [r| |] eqn:R; try discriminate. cbn in H. injection H as <-.
  constructor; [|constructor]. cbn. eapply guard_read_inside; eassumption.
Qed.

(* T1, exact form, WITHOUT the scope hypothesis: whatever passes the guard, the directory
   entry that is acted on lies inside the playlists directory, OR it is a symbolic link
   (wherever it is placed) whose resolved target lies inside -- nothing else can be touched.
   The second alternative is exactly the scope note. *)
Lemma guard_entry_exact fs base dirp b d f' bb :
  walk false fs FUEL [] dirp = Some (d, S f') ->
  resolve fs base = Ok bb ->
  m3u_guard fs base (dirp ++ [b]) = Ok true ->
  is_dot b = false ->
  is_prefix bb d = true \/
  (is_link_at fs d b = true /\
   exists r, resolve fs (dirp ++ [b]) = Ok r /\ is_prefix bb (removelast r) = true).
Proof.
  intros W B G Hd. destruct (is_link_at fs d b) eqn:L.
  - right. split; [reflexivity|].
    destruct (guard_true fs base _ bb B G) as (r & R & _ & _). exists r. split; [exact R|].
    eapply guard_read_inside; eassumption.
  - left. eapply guard_entry_inside; try eassumption. intros X. congruence.
Qed.

(* the same for what delete / save / save-with-rename touch: all of it is inside, or the
   named entry is a symbolic link whose target is inside *)
Definition link_to_inside (fs : node) (bb dirp : path) (b : name) (d : path) : Prop :=
  is_link_at fs d b = true /\
  exists r, resolve fs (dirp ++ [b]) = Ok r /\ is_prefix bb (removelast r) = true.

Lemma acts_guard_ok fs base p k l :
  with_guard m3u_guard fs base p k = Acts l -> m3u_guard fs base p = Ok true.
Proof.
  unfold with_guard. destruct (m3u_guard fs base p) as [[|]| |]; try discriminate. reflexivity.
Qed.

Lemma m3u_ops_exact_lemma fs base dirp b d f' bb :
  walk false fs FUEL [] dirp = Some (d, S f') -> resolve fs base = Ok bb -> is_dot b = false ->
  (forall l, m3u_delete fs base (dirp ++ [b]) = Acts l ->
     Forall (fun t => touch_inside bb t = true) l \/ link_to_inside fs bb dirp b d) /\
  (forall l, m3u_save fs base (dirp ++ [b]) = Acts l ->
     Forall (fun t => touch_inside bb t = true) l \/ link_to_inside fs bb dirp b d) /\
  (forall newname l, is_dot newname = false -> m3u_rename fs base (dirp ++ [b]) newname = Acts l ->
     Forall (fun t => touch_inside bb t = true) l \/ link_to_inside fs bb dirp b d).
Proof.
  intros W B Hd.
  assert (K : forall k l, with_guard m3u_guard fs base (dirp ++ [b]) k = Acts l ->
              is_prefix bb d = true \/ link_to_inside fs bb dirp b d).
  { intros k l H. apply acts_guard_ok in H. apply (guard_entry_exact fs base dirp b d f' bb W B H Hd). }
  split; [|split].
  - intros l H. destruct (K _ _ H) as [I|X]; [left|right; exact X].
    apply (delete_confined_sec fs base dirp b d f' bb W B Hd (fun _ => I) l H).
  - intros l H. destruct (K _ _ H) as [I|X]; [left|right; exact X].
    apply (save_confined_sec fs base dirp b d f' bb W B Hd (fun _ => I) l H).
  - intros newname l Hn H. destruct (K _ _ H) as [I|X]; [left|right; exact X].
    apply (rename_confined_sec fs base dirp b d f' bb W B Hd (fun _ => I) newname l Hn H).
Qed.

(* create(name): the new file name is ONE component below the playlists directory, so the
   scope condition holds by itself: for every tree and every name, create touches only
   entries of the resolved playlists directory (unconditionally). *)
Lemma create_confined_lemma fs base n bb f' l :
  walk false fs FUEL [] base = Some (bb, S f') -> is_dot n = false ->
  m3u_create fs base n = Acts l -> Forall (fun t => touch_inside bb t = true) l.
Proof.
  intros W Hd H.
  assert (B : resolve fs base = Ok bb).
  { unfold m3u_create, m3u_create_with in H.
    destruct (m3u_guard fs base (base ++ [n])) as [[|]|[]|] eqn:G; try discriminate.
    unfold m3u_guard in G. destruct (resolve fs (base ++ [n])) as [r| |]; try discriminate.
    cbn [rbind] in G. destruct (resolve fs base) as [b0| |] eqn:RB; try discriminate.
    rewrite (resolve_parent fs base bb _ b0 W RB). reflexivity. }
  assert (S1 : m3u_save fs base (base ++ [n]) = Acts l).
  { unfold m3u_create, m3u_create_with in H. unfold m3u_save, m3u_save_with, with_guard.
    destruct (m3u_guard fs base (base ++ [n])) as [[|]|[]|]; try discriminate.
    destruct (resolve fs (parent (base ++ [n]))) as [d0|[]|]; try discriminate.
    cbn [rbind]. exact H. }
  apply (save_confined_sec fs base base n bb f' bb W B Hd (fun _ => is_prefix_refl bb) l S1).
Qed.

(* as_list(): only names of entries of the resolved playlists directory, each a regular
   file (after following links) with a playlist extension *)
Lemma as_list_names_lemma fs base bb names n :
  resolve fs base = Ok bb -> m3u_as_list_names fs base = Ok names -> In n names ->
  exists x, In (n, x) (entries_at fs bb) /\ mem_str (suffix n) [M3U; M3U8] = true /\
            exists r, resolve fs (bb ++ [n]) = Ok r /\ is_file fs r = true.
Proof.
  intros B H I. unfold m3u_as_list_names in H. rewrite B in H. cbn [rbind] in H. injection H as <-.
  apply in_map_iff in I. destruct I as ([n' x] & E & F). cbn in E. subst n'.
  apply filter_In in F. destruct F as [F L]. unfold listed_entry in L. cbn [fst] in L.
  apply andb_true_iff in L. destruct L as [L1 L2].
  exists x. split; [exact F|]. split; [exact L1|].
  destruct (resolve fs (bb ++ [n])) as [r| |]; try discriminate. exists r. auto.
Qed.

(* the guard refuses the playlists directory itself (commit recorded in known_findings);
   the guard before the fix accepted it and the temporary file went to the parent *)
Lemma guard_refuses_base fs base bb p :
  resolve fs base = Ok bb -> resolve fs p = Ok bb -> m3u_guard fs base p = Ok false.
Proof.
  intros B R. unfold m3u_guard. rewrite R. cbn [rbind]. rewrite B. cbn [rbind].
  assert (E : path_eqb bb bb = true) by (apply path_eqb_eq; reflexivity). rewrite E. reflexivity.
Qed.

Definition w_fs : node :=
  D [([114], D [([105], D [([97], F)]); ([111], D [([115], F); ([108], L [[114]; [105]; [97]] true)])])].
(* /r/i = playlists dir with playlist a; /r/o = outside with secret s and a link l -> /r/i/a *)
Definition w_base : path := [[114]; [105]].

Lemma old_guard_refuted_lemma :
  (* "m3u:." : the old guard lets save() create its temporary file in /r, outside /r/i *)
  m3u_save_with m3u_guard_old w_fs w_base w_base = Acts [TCreateIn [[114]]; TEntry [[114]] [105]]
  /\ touch_inside w_base (TCreateIn [[114]]) = false
  /\ m3u_save w_fs w_base w_base = Refused.
Proof. vm_compute. auto. Qed.

(* the scope hypothesis is necessary: a link placed OUTSIDE that points inside *)
Lemma scope_necessary_lemma :
  let p := [[114]; [111]; [108]] in
  m3u_delete w_fs w_base p = Acts [TEntry [[114]; [111]] [108]]
  /\ touch_inside w_base (TEntry [[114]; [111]] [108]) = false
  /\ is_link_at w_fs [[114]; [111]] [108] = true.
Proof. vm_compute. auto. Qed.

(* the hypothesis `is_dot newname = false` of the rename theorem is necessary: for a URI
   without extension and the new name "." the destination of the rename is the playlists
   directory itself, whose entry lives in its parent (the kernel refuses that rename) *)
Lemma rename_dot_target_lemma :
  m3u_rename w_fs w_base (w_base ++ [[97]]) [46] =
    Acts [TCreateIn w_base; TEntry w_base [97]; TEntry w_base [97]; TEntry [[114]] [105]]
  /\ touch_inside w_base (TEntry [[114]] [105]) = false.
Proof. vm_compute. auto. Qed.

Example confined_nonvacuous :
  let dirp := [[114]; [105]; [46; 46]; [105]] in           (* /r/i/../i *)
  walk false w_fs FUEL [] dirp = Some (w_base, 396%nat) /\
  resolve w_fs w_base = Ok w_base /\
  m3u_guard w_fs w_base (dirp ++ [[97]]) = Ok true /\
  m3u_delete w_fs w_base (dirp ++ [[97]]) = Acts [TEntry w_base [97]].
Proof. vm_compute. auto. Qed.

(* ---------------------------------------------------------------- browse *)

(* keep the kernel from unfolding 400 steps of path resolution while checking Qed *)
Local Strategy opaque [walk].

Lemma collect_in {A} (l : list (res gexn (option A))) : forall r x,
  collect l = Ok r -> In x r -> In (Ok (Some x)) l.
Proof.
  induction l as [|e t IH]; intros r x H I.
  - cbn in H. injection H as <-. contradiction.
  - cbn in H. destruct e as [o| |]; try discriminate. cbn in H.
    destruct (collect t) as [r'| |]; try discriminate. cbn in H. injection H as <-.
    destruct o as [a|].
    + destruct I as [->|I]; [left; reflexivity|right; eapply IH; [reflexivity|exact I]].
    + right. eapply IH; [reflexivity|exact I].
Qed.

Definition entry_allowed (st : settings) (e : name * node) : Prop :=
  (show_dotfiles st = false -> starts_with [46] (fst e) = false) /\
  (excluded st <> [] -> mem_str (lower (suffix (fst e))) (excluded st) = false) /\
  ((exists t a, snd e = L t a) -> follow_symlinks st = true).

Lemma browse_entry_sound fs mdirs st dirp e k n child :
  browse_entry fs mdirs st dirp e = Ok (Some (k, n, child)) ->
  n = fst e /\ resolve fs (dirp ++ [fst e]) = Ok child /\
  inside_any fs mdirs child = Ok true /\ entry_allowed st e /\
  match k with KDir => is_dir fs child = true | KTrack => is_file fs child = true end.
Proof.
  unfold browse_entry. destruct (resolve fs (dirp ++ [fst e])) as [c| |]; try discriminate. cbn [rbind].
  destruct (negb (show_dotfiles st) && starts_with [46] (fst e)) eqn:E1; [discriminate|].
  destruct (negb (match excluded st with [] => true | _ => false end) && mem_str (lower (suffix (fst e))) (excluded st)) eqn:E2; [discriminate|].
  destruct ((match snd e with L _ _ => true | _ => false end) && negb (follow_symlinks st)) eqn:E3; [discriminate|].
  destruct (inside_any fs mdirs c) as [[|]| |] eqn:I; try discriminate. cbn.
  assert (A : entry_allowed st e).
  { split; [|split].
    - intros S. rewrite S in E1. cbn in E1. exact E1.
    - intros X. destruct (excluded st); [contradiction|]. cbn in E2. exact E2.
    - intros (t & a & L'). rewrite L' in E3. cbn in E3. destruct (follow_symlinks st); [reflexivity|discriminate]. }
  destruct (is_dir fs c) eqn:Dr.
  - intros H. injection H as <- <- <-. auto.
  - destruct (is_file fs c) eqn:Fl; [|discriminate]. intros H. injection H as <- <- <-. auto.
Qed.

(* T2 + T3 (soundness): everything browse returns resolves inside a media directory and
   is allowed by the settings *)
Lemma browse_sound_lemma fs mdirs st p refs k n child :
  browse fs mdirs st p = Ok refs -> In (k, n, child) refs ->
  inside_any fs mdirs child = Ok true /\
  inside_any fs mdirs p = Ok true /\
  exists kr e, kpath fs p = Some kr /\ In e (entries_at fs kr) /\ n = fst e /\
               resolve fs (kr ++ [n]) = Ok child /\ entry_allowed st e /\
               match k with KDir => is_dir fs child = true | KTrack => is_file fs child = true end.
Proof.
  unfold browse. intros H I.
  destruct (inside_any fs mdirs p) as [[|]| |] eqn:G; try discriminate; cbn [rbind negb] in H;
    [|injection H as <-; contradiction].
  destruct (resolve fs p) as [r| |]; try discriminate. cbn [rbind negb] in H.
  destruct (kpath fs p) as [kr|] eqn:K; [|discriminate].
  destruct (is_file fs kr); [injection H as <-; contradiction|].
  destruct (is_dir fs kr); [|discriminate]. cbn [rbind negb] in H.
  pose proof (collect_in _ _ _ H I) as M. apply in_map_iff in M. destruct M as (e & E & Ie).
  destruct (browse_entry_sound _ _ _ _ _ _ _ _ E) as (-> & R & Ins & A & Kd).
  split; [exact Ins|]. split; [reflexivity|]. exists kr, e.
  split; [reflexivity|]. split; [exact Ie|]. split; [reflexivity|]. split; [exact R|]. split; [exact A|exact Kd].
Qed.

(* T3 (completeness for one entry): an allowed entry that resolves inside to a directory
   or a file is produced *)
Lemma browse_entry_complete fs mdirs st dirp e child :
  resolve fs (dirp ++ [fst e]) = Ok child -> inside_any fs mdirs child = Ok true ->
  entry_allowed st e -> (is_dir fs child = true \/ is_file fs child = true) ->
  exists k, browse_entry fs mdirs st dirp e = Ok (Some (k, fst e, child)).
Proof.
  intros R I (A1 & A2 & A3) K. unfold browse_entry. rewrite R. cbn [rbind].
  assert (E1 : negb (show_dotfiles st) && starts_with [46] (fst e) = false).
  { destruct (show_dotfiles st); [reflexivity|]. cbn. apply A1. reflexivity. }
  rewrite E1.
  assert (E2 : negb (match excluded st with [] => true | _ => false end) && mem_str (lower (suffix (fst e))) (excluded st) = false).
  { destruct (excluded st) as [|x xs] eqn:X; [reflexivity|]. cbn [negb andb]. apply A2. discriminate. }
  rewrite E2.
  assert (E3 : (match snd e with L _ _ => true | _ => false end) && negb (follow_symlinks st) = false).
  { destruct (snd e) eqn:X; try reflexivity. rewrite A3; [reflexivity|]. eauto. }
  rewrite E3, I. cbn.
  destruct (is_dir fs child) eqn:Dr; [eexists; reflexivity|].
  destruct K as [K|K]; [discriminate|]. rewrite K. eexists. reflexivity.
Qed.

(* inside_any = true means one of the media directories contains the resolved path *)
Lemma inside_any_true fs mdirs p :
  inside_any fs mdirs p = Ok true -> exists m, In m mdirs /\ inside_base fs m p = Ok true.
Proof.
  unfold inside_any. induction mdirs as [|m t IH]; cbn [fold_right]; [discriminate|].
  destruct (inside_base fs m p) as [[|]| |] eqn:E; cbn [rbind]; try discriminate.
  - intros _. exists m. split; [left; reflexivity|exact E].
  - intros H. destruct (IH H) as (m' & I & E'). exists m'. split; [right; exact I|exact E'].
Qed.

Lemma inside_base_true fs m p :
  inside_base fs m p = Ok true ->
  exists r mb, resolve fs p = Ok r /\ resolve fs m = Ok mb /\
               is_prefix mb (if is_file fs r then removelast r else r) = true.
Proof.
  unfold inside_base. destruct (resolve fs p) as [r| |]; try discriminate. cbn [rbind].
  destruct (resolve fs m) as [mb| |]; try discriminate. cbn [rbind]. intros H. injection H as H.
  exists r, mb. auto.
Qed.
