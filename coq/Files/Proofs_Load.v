(* Proofs about the load side and the composition save ; crash ; load (C11). *)
From Coq Require Import ZArith List Bool Lia.
From Common Require Import Str Res.
From Files Require Import AtomicFile Proofs_Atomic Proofs_Durable.
Import ListNotations.
Open Scope Z_scope.

Section Load.
  Variable A : Type.
  Variable gunzip : bytes -> gz_outcome.
  Variable validate : bytes -> js_outcome A.
  Let dec := decode_stages gunzip validate.
  Let ld := load_file gunzip validate.

  Lemma load_file_total_sec content : exists v, ld content = Ok v.
  Proof. unfold ld, load_file. destruct content; apply load_total_lemma. Qed.

  (* a state is returned exactly when every stage succeeded *)
  Lemma load_file_some_sec content a :
    ld content = Ok (Some a) <->
    exists b p, content = Some b /\ gunzip b = GzOk p /\ validate p = JsOk a.
  Proof.
    unfold ld, load_file. split.
    - destruct content as [b|]; [|discriminate]. intros H. apply load_some_iff in H.
      unfold decode_stages in H. destruct (gunzip b) as [| | |p] eqn:G; try discriminate.
      destruct (validate p) as [| |a'] eqn:V; try discriminate. injection H as ->. eauto.
    - intros (b & p & -> & G & V). unfold decode_stages. rewrite G, V. reflexivity.
  Qed.

  (* "an unreadable state file behaves like no state file": whatever stage fails, and however *)
  Lemma unreadable_like_missing_sec b :
    (forall p a, gunzip b = GzOk p -> validate p <> JsOk a) -> ld (Some b) = ld None.
  Proof.
    intros H. unfold ld, load_file, decode_stages.
    destruct (gunzip b) as [| | |p] eqn:G; try reflexivity.
    destruct (validate p) as [| |a] eqn:V; [reflexivity|reflexivity|]. exfalso. eapply H; eauto.
  Qed.

  Lemma unreadable_same_session_sec default b :
    (forall p a, gunzip b = GzOk p -> validate p <> JsOk a) ->
    session_of default (ld (Some b)) = session_of default (ld None) /\
    session_of default (ld None) = default.
  Proof. intros H. rewrite (unreadable_like_missing_sec b H). split; reflexivity. Qed.

  (* the encoder is the other half of the oracle: what dump writes for a state decodes to it *)
  Variable enc : A -> bytes.
  Hypothesis enc_dec : forall a, exists p, gunzip (enc a) = GzOk p /\ validate p = JsOk a.

  Lemma ld_enc a : ld (Some (enc a)) = Ok (Some a).
  Proof. apply load_file_some_sec. destruct (enc_dec a) as (p & G & V). eauto. Qed.

  (* save ; crash ; load, at the level of the decoded session.  Whatever the old file was
     (a valid state, garbage, missing), after a crash at ANY point of the protocol that
     writes enc(new_state), loading gives what loading the old file gave, or new_state. *)
  Lemma dump_crash_load_sec s0 f tmp target chunks mid tail new_state :
    wf s0 -> names s0 tmp = None -> fds s0 f = None -> tmp <> target ->
    forallb quiet_b mid = true -> forallb quiet_b tail = true ->
    concat chunks = enc new_state ->
    forall k : nat,
      let after := read (crash (kprotocol f tmp target chunks mid tail) k s0) target in
      ld after = ld (read s0 target) \/ ld after = Ok (Some new_state).
  Proof.
    intros W T F N M L C k after.
    destruct (kprotocol_atomic s0 f tmp target chunks mid tail W T F N M L) as (At & _).
    destruct (At k) as [E|E]; unfold after; unfold atomic_at in E; rewrite E.
    - left. reflexivity.
    - right. rewrite C. apply ld_enc.
  Qed.

  (* the same under power loss, when the temporary file is fsynced before the rename *)
  Lemma dump_powerloss_load_sec s0 f tmp target chunks mid tail new_state :
    wf (ks s0) -> names (ks s0) tmp = None -> tmp <> target ->
    (forall i, i < next (ks s0) -> durable s0 i = data (ks s0) i) ->
    forallb quiet_b mid = true -> forallb quiet_b tail = true ->
    concat chunks = enc new_state ->
    forall k : nat,
      let after := pl_read (drun (firstn k (kprotocol f tmp target chunks (KFsync f :: mid) tail)) s0) target in
      ld after = ld (read (ks s0) target) \/ ld after = Ok (Some new_state).
  Proof.
    intros W T N D M L C k after.
    destruct (durable_protocol_lemma s0 f tmp target chunks mid tail W T N D M L k) as [E|E];
      unfold after; rewrite E.
    - left. reflexivity.
    - right. rewrite C. apply ld_enc.
  Qed.

  (* ... hence the session the next start restores is the old one or the new one; if the
     old file held old_state it is old_state or new_state, never a third thing *)
  Lemma restart_session_sec s0 f tmp target chunks mid tail old_state new_state default :
    wf s0 -> names s0 tmp = None -> fds s0 f = None -> tmp <> target ->
    forallb quiet_b mid = true -> forallb quiet_b tail = true ->
    concat chunks = enc new_state ->
    read s0 target = Some (enc old_state) ->
    forall k : nat,
      let sess := session_of default (ld (read (crash (kprotocol f tmp target chunks mid tail) k s0) target)) in
      sess = old_state \/ sess = new_state.
  Proof.
    intros W T F N M L C O k sess.
    destruct (dump_crash_load_sec s0 f tmp target chunks mid tail new_state W T F N M L C k) as [E|E];
      unfold sess; rewrite E.
    - left. rewrite O, ld_enc. reflexivity.
    - right. reflexivity.
  Qed.
End Load.

Lemma unreadable_like_missing_lemma A gunzip (validate : bytes -> js_outcome A) default b :
  (forall p a, gunzip b = GzOk p -> validate p <> JsOk a) ->
  load_file gunzip validate (Some b) = load_file gunzip validate None /\
  session_of default (load_file gunzip validate (Some b)) = default.
Proof.
  intros H. split; [apply unreadable_like_missing_sec, H|].
  destruct (unreadable_same_session_sec A gunzip validate default b H) as [X Y]. rewrite X. exact Y.
Qed.

(* whether the state file is consumed does not depend on whether the state can be applied *)
Lemma core_restore_consumes_lemma (A : Type) (k : fkind) (unlink_ok apply_raises : bool) (o : decode_outcome A) :
  snd (core_restore k unlink_ok apply_raises o) = snd (core_load k unlink_ok o) /\
  (k = FRegular -> unlink_ok = true -> snd (core_restore k unlink_ok apply_raises o) = false) /\
  (k = FMissing -> snd (core_restore k unlink_ok apply_raises o) = false).
Proof.
  unfold core_restore, core_load, core_load_with.
  destruct o; cbn; try (split; [reflexivity|split; [intros -> ->; reflexivity|intros ->; reflexivity]]).
  destruct apply_raises; cbn; (split; [reflexivity|split; [intros -> ->; reflexivity|intros ->; reflexivity]]).
Qed.

Lemma late_unlink_refuted_lemma :
  snd (core_restore_late_unlink FRegular true true (DOk tt)) = true /\
  snd (core_restore FRegular true true (DOk tt)) = false.
Proof. vm_compute. auto. Qed.

Lemma load_no_typeerror_refuted_lemma :
  exists o : decode_outcome unit,
    outcome_fits FRegular o = true /\
    is_raise (load_no_typeerror o) = true /\
    snd (core_load_with load_no_typeerror FRegular true o) = true /\
    load o = Ok None.
Proof. exists DTypeError. vm_compute. auto. Qed.
