(* Proofs about Files/M3u.v (C19). *)
From Coq Require Import ZArith List Bool Lia.
From Common Require Import Str Res.
From Files Require Import M3u.
Import ListNotations.
Open Scope Z_scope.

(* ---------------------------------------------------------------- strings *)

Lemma str_eqb_refl s : str_eqb s s = true.
Proof. apply str_eqb_eq. reflexivity. Qed.

Lemma str_eqb_neq a b : a <> b -> str_eqb a b = false.
Proof. intros H. destruct (str_eqb a b) eqn:E; [apply str_eqb_eq in E; contradiction|reflexivity]. Qed.

Lemma str_eqb_sym a b : str_eqb a b = str_eqb b a.
Proof.
  destruct (str_eqb a b) eqn:E.
  - apply str_eqb_eq in E. subst. symmetry. apply str_eqb_refl.
  - symmetry. apply str_eqb_neq. intros X. subst. rewrite str_eqb_refl in E. discriminate.
Qed.

Lemma lstrip_length s : (length (lstrip s) <= length s)%nat.
Proof. induction s as [|c t IH]; cbn; [lia|]. destruct (py_isspace c); cbn; lia. Qed.

Lemma lstrip_fix_head y ys : lstrip (y :: ys) = y :: ys -> py_isspace y = false.
Proof.
  cbn. destruct (py_isspace y); [|reflexivity]. intros H.
  pose proof (lstrip_length ys) as L. rewrite H in L. cbn in L. lia.
Qed.

Lemma lstrip_keep y ys rest : py_isspace y = false -> lstrip ((y :: ys) ++ rest) = (y :: ys) ++ rest.
Proof. intros H. cbn. rewrite H. reflexivity. Qed.

Lemma rstrip_app_keep a m : m <> [] -> rstrip m = m -> rstrip (a ++ m) = a ++ m.
Proof.
  intros Hne H. unfold rstrip in *.
  assert (E : lstrip (rev m) = rev m).
  { rewrite <- H at 2. rewrite rev_involutive. reflexivity. }
  destruct (rev m) as [|y ys] eqn:R.
  - apply (f_equal (@rev Z)) in R. rewrite rev_involutive in R. cbn in R. contradiction.
  - rewrite rev_app_distr, R. rewrite (lstrip_keep y ys (rev a) (lstrip_fix_head y ys E)).
    rewrite <- R, <- rev_app_distr, rev_involutive. reflexivity.
Qed.

(* ---------------------------------------------------------------- lines *)

Lemma ulines_aux_line l : forall cur rest,
  ~ In NL l -> ~ In CR l ->
  ulines_aux cur (l ++ NL :: rest) = (rev cur ++ l) :: ulines_aux [] rest.
Proof.
  induction l as [|x l IH]; intros cur rest H1 H2.
  - cbn. rewrite app_nil_r. reflexivity.
  - cbn [app ulines_aux].
    assert (x <> NL) by (intros E; apply H1; left; auto).
    assert (x <> CR) by (intros E; apply H2; left; auto).
    destruct (x =? NL) eqn:E1; [apply Z.eqb_eq in E1; contradiction|].
    destruct (x =? CR) eqn:E2; [apply Z.eqb_eq in E2; contradiction|].
    rewrite IH; [|intros E; apply H1; right; exact E|intros E; apply H2; right; exact E].
    cbn. rewrite <- app_assoc. reflexivity.
Qed.

Lemma ulines_unlines ls :
  Forall (fun l => ~ In NL l /\ ~ In CR l) ls -> ulines (unlines ls) = ls.
Proof.
  unfold ulines. induction 1 as [|l t [H1 H2] _ IH]; [reflexivity|].
  cbn [unlines flat_map]. rewrite <- app_assoc. cbn [app].
  rewrite (ulines_aux_line l [] _ H1 H2). cbn. fold (unlines t). rewrite IH. reflexivity.
Qed.

(* ---------------------------------------------------------------- T1 *)

Lemma strip_extinf_line m :
  m <> [] -> rstrip m = m -> strip (EXTINF_PRE ++ m) = EXTINF_PRE ++ m.
Proof.
  intros Hne H. unfold strip.
  assert (L : lstrip (EXTINF_PRE ++ m) = EXTINF_PRE ++ m) by reflexivity.
  rewrite L. apply rstrip_app_keep; assumption.
Qed.

Lemma in_eol_app a b : no_eol b -> ~ In NL a -> ~ In CR a -> ~ In NL (a ++ b) /\ ~ In CR (a ++ b).
Proof.
  intros [B1 B2] A1 A2. split; intros H; apply in_app_or in H; destruct H; contradiction.
Qed.

Lemma extinf_pre_no_eol : ~ In NL EXTINF_PRE /\ ~ In CR EXTINF_PRE.
Proof. split; intros H; cbn in H; repeat (destruct H as [H|H]; [discriminate|]); exact H. Qed.

Lemma item_lines_no_eol it :
  line_safe it -> Forall (fun l => ~ In NL l /\ ~ In CR l) (item_lines it).
Proof.
  destruct it as [u [n|]]; intros [[Hu _] Hn]; cbn in *.
  - destruct n as [|c n]; [destruct Hn as [X _]; contradiction|].
    destruct Hn as (_ & Hn & _). constructor; [|constructor; [exact Hu|constructor]].
    destruct extinf_pre_no_eol. apply (in_eol_app EXTINF_PRE (c :: n)); assumption.
  - constructor; [exact Hu|constructor].
Qed.

Lemma dump_lines_no_eol items :
  Forall line_safe items -> Forall (fun l => ~ In NL l /\ ~ In CR l) (dump_lines items).
Proof.
  intros H. unfold dump_lines. apply Forall_app. split.
  - destruct (existsb (fun it => truthy (snd it)) items); constructor; [|constructor].
    split; intros X; cbn in X; repeat (destruct X as [X|X]; [discriminate|]); exact X.
  - induction H as [|it t Hi _ IH]; cbn; [constructor|]. apply Forall_app. split; [apply item_lines_no_eol, Hi|exact IH].
Qed.

Lemma load_uri_line raises locals name u rest :
  line_safe_uri u -> mem_str u raises = false ->
  load_lines raises locals name (u :: rest) =
  rbind (load_lines raises locals None rest) (fun r => Ok ((u, name) :: r)).
Proof.
  intros (_ & Hs & Hsch & (c & t & -> & Hc)) Hr. cbn [load_lines]. rewrite Hs.
  destruct (c =? HASH) eqn:E; [apply Z.eqb_eq in E; contradiction|].
  rewrite Hr, Hsch. reflexivity.
Qed.

Lemma load_item_lines raises locals it rest :
  line_safe it -> mem_str (fst it) raises = false ->
  load_lines raises locals None (item_lines it ++ rest) =
  rbind (load_lines raises locals None rest) (fun r => Ok (it :: r)).
Proof.
  destruct it as [u [n|]]; intros [Hu Hn] Hr; cbn [fst snd] in *.
  - destruct n as [|c n]; [destruct Hn as [X _]; contradiction|].
    destruct Hn as (Hne & _ & Hrs).
    cbn [item_lines app]. cbn [load_lines].
    rewrite (strip_extinf_line (c :: n) Hne Hrs).
    change (EXTINF_PRE ++ c :: n) with (35 :: ([69; 88; 84; 73; 78; 70; 58; 45; 49; 44] ++ c :: n)).
    cbn [Z.eqb HASH Pos.eqb]. cbn [starts_with EXTINF app Z.eqb Pos.eqb andb after_comma COMMA].
    apply load_uri_line; assumption.
  - cbn [item_lines app]. apply load_uri_line; assumption.
Qed.

Lemma load_items_lines raises locals items :
  Forall line_safe items -> Forall (fun it => mem_str (fst it) raises = false) items ->
  load_lines raises locals None (flat_map item_lines items) = Ok items.
Proof.
  induction 1 as [|it t Hi _ IH]; intros Hr; [reflexivity|].
  inversion Hr as [|? ? R1 R2]; subst. cbn [flat_map].
  rewrite load_item_lines by assumption. rewrite (IH R2). reflexivity.
Qed.

Lemma dump_load_inverse_lemma raises locals items :
  Forall line_safe items -> Forall (fun it => mem_str (fst it) raises = false) items ->
  load_items raises locals (dump_items items) = Ok items.
Proof.
  intros H R. unfold load_items, dump_items.
  rewrite ulines_unlines by (apply dump_lines_no_eol, H).
  unfold dump_lines. destruct (existsb (fun it => truthy (snd it)) items).
  - cbn [app]. cbn [load_lines]. change (strip EXTM3U) with EXTM3U.
    cbn. apply load_items_lines; assumption.
  - cbn [app]. apply load_items_lines; assumption.
Qed.

(* the boolean used by the harness implies the hypothesis *)
Lemma forallb_no_eol s : no_eol_b s = true -> no_eol s.
Proof.
  unfold no_eol_b, no_eol. intros H. rewrite forallb_forall in H.
  split; intros X; apply H in X; cbn in X; discriminate.
Qed.

Lemma line_safe_b_sound it : line_safe_b it = true -> line_safe it.
Proof.
  destruct it as [u n]. unfold line_safe_b, line_safe, line_safe_uri, line_safe_name. cbn [fst snd].
  intros H. repeat (apply andb_true_iff in H; destruct H as [H ?]).
  split.
  - split; [apply forallb_no_eol; assumption|]. split; [apply str_eqb_eq; assumption|].
    split; [assumption|]. destruct u as [|c t]; [discriminate|]. exists c, t. split; [reflexivity|].
    intros X. subst. discriminate.
  - destruct n as [s|]; [|exact I]. destruct s as [|c s]; [discriminate|].
    match goal with X : _ && _ = true |- _ => apply andb_true_iff in X; destruct X as [X1 X2] end.
    split; [discriminate|]. split; [apply forallb_no_eol; assumption|apply str_eqb_eq; assumption].
Qed.

Example line_safe_nonvacuous :
  let items := [([100; 117; 109; 109; 121; 58; 97], Some [84; 44; 32; 49]);       (* dummy:a , "T, 1" *)
                ([102; 105; 108; 101; 58; 47; 47; 47; 120; 32; 121], None);        (* file:///x y *)
                ([120; 58], Some [32; 108])] in                                    (* x: , " l" *)
  forallb line_safe_b items = true /\
  load_items [] [] (dump_items items) = Ok items /\ length (ulines (dump_items items)) = 6%nat.
Proof. vm_compute. auto. Qed.

(* ---------------------------------------------------------------- names *)

Lemma span_dot_app l : forall acc r,
  ~ In DOT l -> span_dot (l ++ DOT :: r) acc = Some (rev l ++ acc, r).
Proof.
  induction l as [|x l IH]; intros acc r H; [reflexivity|].
  cbn [app span_dot]. destruct (x =? DOT) eqn:E; [apply Z.eqb_eq in E; exfalso; apply H; left; auto|].
  rewrite IH by (intros X; apply H; right; exact X). cbn. rewrite <- app_assoc. reflexivity.
Qed.

Lemma split_suffix_app n e :
  n <> [] -> e <> [] -> ~ In DOT e -> split_suffix (n ++ DOT :: e) = (n, DOT :: e).
Proof.
  intros Hn He Hd. unfold split_suffix.
  assert (R : rev (n ++ DOT :: e) = rev e ++ DOT :: rev n).
  { rewrite rev_app_distr. cbn. rewrite <- app_assoc. reflexivity. }
  rewrite R. rewrite span_dot_app by (intros X; apply Hd, in_rev; exact X).
  rewrite rev_involutive, app_nil_r.
  destruct e as [|e0 e']; [contradiction|].
  destruct (rev n) as [|b br] eqn:Q.
  - apply (f_equal (@rev Z)) in Q. rewrite rev_involutive in Q. cbn in Q. contradiction.
  - rewrite <- Q, rev_involutive. reflexivity.
Qed.

Definition is_ext (x : str) : Prop := x = M3U \/ x = M3U8.

Lemma ext_shape x : is_ext x -> exists e, x = DOT :: e /\ e <> [] /\ ~ In DOT e.
Proof.
  intros [->| ->]; eexists; (split; [reflexivity|]); (split; [discriminate|]);
    intros X; cbn in X; repeat (destruct X as [X|X]; [discriminate|]); exact X.
Qed.

Lemma repl_sep_nonempty n : n <> [] -> repl_sep n <> [].
Proof. destruct n; [contradiction|discriminate]. Qed.

Lemma name_roundtrip_lemma n ext :
  n <> [] -> is_ext ext ->
  name_from_path (path_from_name n ext) = repl_sep n /\ suffix (path_from_name n ext) = ext.
Proof.
  intros Hn He. destruct (ext_shape ext He) as (e & -> & E1 & E2).
  unfold name_from_path, stem, suffix, path_from_name.
  rewrite split_suffix_app; [split; reflexivity|apply repl_sep_nonempty, Hn|exact E1|exact E2].
Qed.

Lemma repl_sep_no_slash n : ~ In SLASH (repl_sep n).
Proof.
  unfold repl_sep. intros H. apply in_map_iff in H. destruct H as (c & E & _).
  destruct (c =? SLASH) eqn:Q; [discriminate|]. apply Z.eqb_neq in Q. contradiction.
Qed.

(* the code before the fix: with_suffix cuts the name at its last dot *)
Lemma save_old_refuted_lemma :
  exists name,
    let f := [112; 46; 109; 51; 117; 56] in                       (* p.m3u8 *)
    match fst (save_old f (Some name) [] [(f, [])]) with
    | Some (_, n', _) => n' <> repl_sep name /\ n' = [77; 121]    (* "My" *)
    | None => False
    end /\
    match fst (save f (Some name) [] [(f, [])]) with
    | Some (_, n', _) => n' = repl_sep name
    | None => False
    end.
Proof.
  exists [77; 121; 46; 80; 108; 97; 121; 108; 105; 115; 116].     (* My.Playlist *)
  vm_compute. split; [split; [discriminate|reflexivity]|reflexivity].
Qed.

(* ---------------------------------------------------------------- directory *)

Lemma assoc_remove_same f d : assoc_str f (pd_remove f d) = None.
Proof.
  induction d as [|[g t] r IH]; cbn; [reflexivity|].
  destruct (str_eqb g f) eqn:E; [exact IH|]. cbn. rewrite str_eqb_sym, E. exact IH.
Qed.

Lemma assoc_remove_other f g d : g <> f -> assoc_str g (pd_remove f d) = assoc_str g d.
Proof.
  intros H. induction d as [|[h t] r IH]; cbn; [reflexivity|].
  destruct (str_eqb h f) eqn:E.
  - apply str_eqb_eq in E. subst h. rewrite (str_eqb_neq g f H). exact IH.
  - cbn. destruct (str_eqb g h); [reflexivity|exact IH].
Qed.

Lemma assoc_write_same d f t : assoc_str f (pd_write d f t) = Some t.
Proof. cbn. rewrite str_eqb_refl. reflexivity. Qed.

Lemma assoc_write_other d f g t : g <> f -> assoc_str g (pd_write d f t) = assoc_str g d.
Proof. intros H. cbn. rewrite (str_eqb_neq g f H). apply assoc_remove_other, H. Qed.

Lemma assoc_rename_target d a b t : assoc_str a d = Some t -> assoc_str b (pd_rename d a b) = Some t.
Proof.
  intros H. unfold pd_rename. rewrite H. destruct (str_eqb a b) eqn:E.
  - apply str_eqb_eq in E. subst. exact H.
  - cbn. rewrite str_eqb_refl. reflexivity.
Qed.

Lemma assoc_rename_other d a b g : g <> a -> g <> b -> assoc_str g (pd_rename d a b) = assoc_str g d.
Proof.
  intros Ha Hb. unfold pd_rename. destruct (assoc_str a d); [|reflexivity].
  destruct (str_eqb a b); [reflexivity|]. cbn. rewrite (str_eqb_neq g b Hb).
  rewrite assoc_remove_other by exact Ha. apply assoc_remove_other, Hb.
Qed.

Lemma assoc_rename_source d a b : a <> b -> assoc_str a (pd_rename d a b) = None.
Proof.
  intros H. unfold pd_rename. destruct (assoc_str a d) eqn:E; [|exact E].
  rewrite (str_eqb_neq a b H). cbn. rewrite (str_eqb_neq a b H). apply assoc_remove_same.
Qed.

(* keys stay unique *)
Lemma keys_remove f d : keys (pd_remove f d) = filter (fun g => negb (str_eqb g f)) (keys d).
Proof.
  unfold keys. induction d as [|[g t] r IH]; [reflexivity|].
  cbn [pd_remove map fst filter]. destruct (str_eqb g f); cbn [negb map fst]; rewrite IH; reflexivity.
Qed.

Lemma nodup_remove f d : NoDup (keys d) -> NoDup (keys (pd_remove f d)) /\ ~ In f (keys (pd_remove f d)).
Proof.
  intros H. rewrite keys_remove. split.
  - apply NoDup_filter, H.
  - intros X. apply filter_In in X. destruct X as [_ X]. rewrite str_eqb_refl in X. discriminate.
Qed.

Lemma nodup_write d f t : NoDup (keys d) -> NoDup (keys (pd_write d f t)).
Proof. intros H. cbn. destruct (nodup_remove f d H). constructor; assumption. Qed.

Lemma in_keys_remove g f d : In g (keys (pd_remove f d)) -> In g (keys d) /\ g <> f.
Proof.
  rewrite keys_remove. intros X. apply filter_In in X. destruct X as [A B]. split; [exact A|].
  intros E. subst. rewrite str_eqb_refl in B. discriminate.
Qed.

Lemma nodup_rename d a b : NoDup (keys d) -> NoDup (keys (pd_rename d a b)).
Proof.
  intros H. unfold pd_rename. destruct (assoc_str a d); [|exact H].
  destruct (str_eqb a b); [exact H|]. cbn.
  destruct (nodup_remove b d H) as [N1 N2]. destruct (nodup_remove a _ N1) as [M1 M2].
  constructor; [|exact M1]. intros X. apply in_keys_remove in X. destruct X as [X _]. contradiction.
Qed.

Lemma assoc_in_keys f d t : assoc_str f d = Some t -> In f (keys d).
Proof.
  induction d as [|[g u] r IH]; cbn; [discriminate|].
  destruct (str_eqb f g) eqn:E; [apply str_eqb_eq in E; subst; auto|]. intros H. right. apply IH, H.
Qed.

(* as_list shows a listed key exactly once *)
Lemma as_list_once f d :
  NoDup (keys d) -> In f (keys d) -> listed_b f = true ->
  length (filter (fun e => str_eqb (fst e) f) (as_list d)) = 1%nat.
Proof.
  intros N I L. unfold as_list.
  induction d as [|[g t] r IH]; [contradiction|].
  cbn [keys map fst] in N, I. inversion N as [|? ? N1 N2]; subst.
  cbn [filter fst]. destruct (str_eqb g f) eqn:E.
  - apply str_eqb_eq in E. subst g. rewrite L. cbn [map filter fst]. rewrite str_eqb_refl. cbn [length].
    f_equal. clear IH I N.
    induction r as [|[h u] r IHr]; [reflexivity|].
    cbn [filter fst]. cbn [keys map fst] in N1, N2. inversion N2 as [|? ? M1 M2]; subst.
    assert (h <> f) by (intros X; subst; apply N1; left; reflexivity).
    destruct (listed_b h); cbn [map filter fst]; rewrite ?(str_eqb_neq h f) by assumption;
      apply IHr; try assumption; intros X; apply N1; right; exact X.
  - destruct I as [I|I]; [subst; rewrite str_eqb_refl in E; discriminate|].
    destruct (listed_b g); cbn [map filter fst]; rewrite ?E; apply IH; assumption.
Qed.

(* ---------------------------------------------------------------- T2 *)

Definition save_post (f : str) (pname : option str) (tracks : list item) (d : pdir)
           (pl : playlist) (d' : pdir) : Prop :=
  let '(f', n', tr) := pl in
  tr = tracks /\ n' = name_from_path f' /\
  assoc_str f' d' = Some (dump_items tracks) /\
  (forall g, g <> f -> g <> f' -> assoc_str g d' = assoc_str g d) /\
  (NoDup (keys d) -> NoDup (keys d')) /\
  (f' = f \/
   exists c n, pname = Some (c :: n) /\ str_eqb (c :: n) (name_from_path f) = false /\
               f' = path_from_name (strip (c :: n)) (suffix f) /\ (f' <> f -> assoc_str f d' = None)).

Lemma save_result_lemma f pname tracks d pl d' :
  save f pname tracks d = (Some pl, d') -> save_post f pname tracks d pl d'.
Proof.
  unfold save, save_with. intros H.
  assert (Base : save_post f pname tracks d (f, name_from_path f, tracks) (pd_write d f (dump_items tracks))).
  { split; [reflexivity|]. split; [reflexivity|].
    split; [apply assoc_write_same|]. split; [intros g G _; apply assoc_write_other, G|].
    split; [apply nodup_write|left; reflexivity]. }
  destruct pname as [[|c n]|].
  - injection H as <- <-. exact Base.
  - destruct (str_eqb (c :: n) (name_from_path f)) eqn:E; [injection H as <- <-; exact Base|].
    destruct (name_too_long (path_from_name (strip (c :: n)) (suffix f)) || bad_target (path_from_name (strip (c :: n)) (suffix f))); [discriminate|].
    injection H as <- <-. split; [reflexivity|]. split; [reflexivity|].
    split; [apply assoc_rename_target with (t := dump_items tracks), assoc_write_same|].
    split.
    + intros g G1 G2. rewrite assoc_rename_other by assumption. apply assoc_write_other, G1.
    + split; [intros N; apply nodup_rename, nodup_write, N|].
      right. exists c, n. split; [reflexivity|]. split; [exact E|]. split; [reflexivity|].
      intros X. apply assoc_rename_source. intros Y. apply X. symmetry. exact Y.
  - injection H as <- <-. exact Base.
Qed.

Lemma save_lookup_lemma raises locals f pname tracks d f' n' tr d' :
  save f pname tracks d = (Some (f', n', tr), d') ->
  Forall line_safe tracks -> Forall (fun it => mem_str (fst it) raises = false) tracks ->
  lookup raises locals f' d' = Ok (Some (f', n', tracks)).
Proof.
  intros H S R. pose proof (save_result_lemma _ _ _ _ _ _ H) as P. unfold save_post in P.
  destruct P as (-> & -> & A & _). unfold lookup. rewrite A.
  rewrite dump_load_inverse_lemma by assumption. reflexivity.
Qed.

Lemma save_name_lemma f c n tracks d f' n' tr d' :
  save f (Some (c :: n)) tracks d = (Some (f', n', tr), d') ->
  str_eqb (c :: n) (name_from_path f) = false ->
  strip (c :: n) <> [] -> is_ext (suffix f) ->
  n' = repl_sep (strip (c :: n)) /\ suffix f' = suffix f.
Proof.
  intros H E Hs He. unfold save, save_with in H. rewrite E in H.
  destruct (name_too_long _ || bad_target _); [discriminate|]. injection H as <- <- <- <-.
  apply name_roundtrip_lemma; assumption.
Qed.

Lemma save_listed_once_lemma f pname tracks d f' n' tr d' :
  save f pname tracks d = (Some (f', n', tr), d') ->
  NoDup (keys d) -> listed_b f' = true ->
  length (filter (fun e => str_eqb (fst e) f') (as_list d')) = 1%nat.
Proof.
  intros H N L. pose proof (save_result_lemma _ _ _ _ _ _ H) as P. unfold save_post in P.
  destruct P as (_ & _ & A & _ & K & _).
  apply as_list_once; [apply K, N|eapply assoc_in_keys, A|exact L].
Qed.

Lemma create_result_lemma ext name d pl d' :
  create ext name d = (Some pl, d') ->
  let '(f, n, tr) := pl in
  f = path_from_name (strip name) ext /\ n = name_from_path f /\ tr = [] /\
  assoc_str f d' = Some [] /\ (forall g, g <> f -> assoc_str g d' = assoc_str g d) /\
  (NoDup (keys d) -> NoDup (keys d')) /\
  (strip name <> [] -> is_ext ext -> n = repl_sep (strip name) /\ listed_b f = true).
Proof.
  unfold create. destruct (name_too_long _); [discriminate|]. intros H. injection H as <- <-.
  split; [reflexivity|]. split; [reflexivity|]. split; [reflexivity|].
  split; [apply assoc_write_same|]. split; [intros g G; apply assoc_write_other, G|].
  split; [apply nodup_write|]. intros Hs He.
  destruct (name_roundtrip_lemma (strip name) ext Hs He) as [A B]. split; [exact A|].
  unfold listed_b. rewrite B. destruct He as [->| ->]; reflexivity.
Qed.

Lemma delete_exact_lemma f d t :
  assoc_str f d = Some t ->
  exists d', delete f d = (true, d') /\ assoc_str f d' = None /\
             (forall g, g <> f -> assoc_str g d' = assoc_str g d) /\
             (NoDup (keys d) -> NoDup (keys d')).
Proof.
  intros H. unfold delete. rewrite H. eexists. split; [reflexivity|].
  split; [apply assoc_remove_same|]. split; [intros g G; apply assoc_remove_other, G|].
  intros N. apply (nodup_remove f d N).
Qed.

Lemma delete_missing_lemma f d : assoc_str f d = None -> delete f d = (false, d).
Proof. intros H. unfold delete. rewrite H. reflexivity. Qed.

(* ---------------------------------------------------------------- quote / unquote *)

Lemma hexval_hexdigit d : 0 <= d < 16 -> hexval (hexdigit d) = Some d.
Proof.
  intros H.
  assert (E : d = 0 \/ d = 1 \/ d = 2 \/ d = 3 \/ d = 4 \/ d = 5 \/ d = 6 \/ d = 7 \/ d = 8 \/ d = 9 \/
              d = 10 \/ d = 11 \/ d = 12 \/ d = 13 \/ d = 14 \/ d = 15) by lia.
  repeat (destruct E as [->|E]; [reflexivity|]). subst. reflexivity.
Qed.

Lemma safe_not_percent c : always_safe c || (c =? SLASH) = true -> (c =? 37) = false.
Proof.
  intros H. destruct (c =? 37) eqn:E; [|reflexivity]. apply Z.eqb_eq in E. subst. discriminate.
Qed.

Lemma div16_bound c : 0 <= c < 256 -> 0 <= c / 16 < 16.
Proof. intros H. split; [apply Z.div_pos; lia|apply Z.div_lt_upper_bound; lia]. Qed.
Lemma mod16_bound c : 0 <= c mod 16 < 16.
Proof. apply Z.mod_pos_bound. lia. Qed.

Lemma unquote_quote bs : Forall (fun c => 0 <= c < 256) bs -> unquote (quote_bytes bs) = bs.
Proof.
  induction 1 as [|c t Hc _ IH]; [reflexivity|].
  unfold quote_bytes in *. cbn [flat_map]. unfold quote_byte at 1.
  destruct (always_safe c || (c =? SLASH)) eqn:S.
  - cbn [app unquote]. rewrite (safe_not_percent c S), IH. reflexivity.
  - cbn [app unquote]. cbn [Z.eqb Pos.eqb].
    rewrite (hexval_hexdigit (c / 16)) by (apply div16_bound, Hc).
    rewrite (hexval_hexdigit (c mod 16)) by (apply mod16_bound).
    rewrite IH. f_equal. symmetry. apply Z.div_mod. lia.
Qed.

Lemma quote_byte_ascii c : 0 <= c < 256 -> Forall (fun x => 0 <= x < 128) (quote_byte c).
Proof.
  intros H. unfold quote_byte. destruct (always_safe c || (c =? SLASH)) eqn:S.
  - constructor; [|constructor]. apply orb_true_iff in S. destruct S as [S|S].
    + unfold always_safe, ascii_alpha in S. clear - S H. lia.
    + apply Z.eqb_eq in S. subst. unfold SLASH. lia.
  - assert (A : forall d, 0 <= d < 16 -> 0 <= hexdigit d < 128).
    { intros d Hd. unfold hexdigit. destruct (d <? 10); lia. }
    constructor; [lia|]. constructor; [apply A, div16_bound, H|]. constructor; [apply A, mod16_bound|constructor].
Qed.

Lemma utf8_ascii s : Forall (fun x => 0 <= x < 128) s -> flat_map utf8 s = s.
Proof.
  induction 1 as [|c t Hc _ IH]; [reflexivity|]. cbn [flat_map]. rewrite IH. unfold utf8.
  destruct (c <? 128) eqn:E; [reflexivity|]. clear - Hc E. lia.
Qed.

Lemma quote_ascii bs : Forall (fun c => 0 <= c < 256) bs -> Forall (fun x => 0 <= x < 128) (quote_bytes bs).
Proof.
  induction 1 as [|c t Hc _ IH]; [constructor|]. unfold quote_bytes. cbn [flat_map].
  apply Forall_app. split; [apply quote_byte_ascii, Hc|exact IH].
Qed.

(* path -> URI -> path is the identity at byte level (urllib quote_from_bytes /
   unquote_to_bytes as transcribed): the "possibly renamed URI" names the same file *)
Lemma uri_path_roundtrip_lemma bs :
  Forall (fun c => 0 <= c < 256) bs -> unquote (flat_map utf8 (quote_bytes bs)) = bs.
Proof. intros H. rewrite (utf8_ascii _ (quote_ascii bs H)). apply unquote_quote, H. Qed.

(* ---------------------------------------------------------------- lines without a scheme *)

Lemma assoc_local_table basedir ls raw :
  In raw ls -> assoc_str (strip raw) (local_table basedir ls) = Some (local_ref basedir (strip raw)).
Proof.
  induction ls as [|x t IH]; intros I; [contradiction|]. cbn [local_table map assoc_str].
  destruct (str_eqb (strip raw) (strip x)) eqn:E.
  - apply str_eqb_eq in E. rewrite E. reflexivity.
  - destruct I as [->|I]; [rewrite str_eqb_refl in E; discriminate|]. apply IH, I.
Qed.

(* With the table computed by the model (local_ref for every line), load_items never
   needs an oracle for a scheme-less line. *)
Lemma load_lines_no_oracle_miss raises basedir all : forall ls name,
  (forall raw, In raw ls -> In raw all) ->
  load_lines raises (local_table basedir all) name ls <> Raise LNoOracle.
Proof.
  induction ls as [|raw t IH]; intros name Sub; [discriminate|].
  cbn [load_lines].
  assert (St : forall raw', In raw' t -> In raw' all) by (intros r' I; apply Sub; right; exact I).
  destruct (strip raw) as [|c l] eqn:E; [apply IH, St|].
  destruct (c =? HASH); [apply IH, St|].
  destruct (mem_str (c :: l) raises); [discriminate|].
  destruct (has_scheme (c :: l)).
  - specialize (IH None St). destruct (load_lines raises (local_table basedir all) None t) as [r|e|]; cbn;
      [discriminate|intros X; apply IH; exact X|discriminate].
  - rewrite <- E. rewrite (assoc_local_table basedir all raw) by (apply Sub; left; reflexivity).
    destruct (local_ref basedir (strip raw)) as [u dn].
    specialize (IH None St). destruct (load_lines raises (local_table basedir all) None t) as [r|e|]; cbn;
      [discriminate|intros X; apply IH; exact X|discriminate].
Qed.

Lemma load_items_model_table_lemma raises basedir text :
  load_items raises (local_table basedir (ulines text)) text <> Raise LNoOracle.
Proof. unfold load_items. apply load_lines_no_oracle_miss. auto. Qed.

(* ---------------------------------------------------------------- codecs *)

Lemma codec_roundtrip_lemma c s :
  forallb (representable c) s = true -> decode_repl c (encode_repl c s) = s.
Proof.
  induction s as [|x t IH]; [reflexivity|]. cbn [forallb]. intros H.
  apply andb_true_iff in H. destruct H as [Hx Ht]. cbn [encode_repl decode_repl map].
  fold (encode_repl c t). fold (decode_repl c (encode_repl c t)). rewrite (IH Ht), Hx.
  destruct c; [reflexivity|]. cbn in Hx. destruct (x <? 128) eqn:E; [reflexivity|].
  apply andb_true_iff in Hx. destruct Hx as [_ Hx]. congruence.
Qed.

Lemma encode_repl_bytes c s : Forall (fun b => 0 <= b < 256) (encode_repl c s).
Proof.
  induction s as [|x t IH]; [constructor|]. cbn [encode_repl map]. constructor; [|exact IH].
  destruct (representable c x) eqn:E; [|lia]. destruct c; cbn in E; lia.
Qed.

(* what is written to a .m3u file in encoding c and read back with the same encoding gives
   the saved items again, when the text is representable *)
Lemma saved_bytes_load_lemma c raises locals items :
  Forall line_safe items -> Forall (fun it => mem_str (fst it) raises = false) items ->
  forallb (representable c) (dump_items items) = true ->
  load_items raises locals (decode_repl c (encode_repl c (dump_items items))) = Ok items.
Proof. intros S R H. rewrite (codec_roundtrip_lemma c _ H). apply dump_load_inverse_lemma; assumption. Qed.

(* ---------------------------------------------------------------- temporary names *)

Lemma span_dot_none l : forall acc, ~ In DOT l -> span_dot l acc = None.
Proof.
  induction l as [|x l IH]; intros acc H; [reflexivity|]. cbn [span_dot].
  destruct (x =? DOT) eqn:E; [apply Z.eqb_eq in E; exfalso; apply H; left; auto|].
  apply IH. intros X. apply H. right. exact X.
Qed.

(* a file name without a dot -- such as the names mkstemp() chooses ("tmp" + 8 characters of
   [a-z0-9_]) -- is never listed as a playlist, whatever else is in the directory: a save in
   progress, or interrupted by a crash, never shows a ghost playlist *)
Lemma no_dot_not_listed_lemma s : ~ In DOT s -> listed_b s = false.
Proof.
  intros H. unfold listed_b, suffix, split_suffix.
  rewrite span_dot_none by (intros X; apply H, in_rev; exact X). reflexivity.
Qed.

Lemma as_list_ignores_temp_lemma d tmp txt :
  ~ In DOT tmp -> as_list ((tmp, txt) :: d) = as_list d.
Proof. intros H. unfold as_list. cbn [filter fst]. rewrite (no_dot_not_listed_lemma tmp H). reflexivity. Qed.
