(* C16 property theorems.  Nothing but statements, `exact`, and Print Assumptions.
   Model: Fs.v; proofs: Proofs_Fs.v. *)
From Coq Require Import ZArith List Bool.
From Common Require Import Str Res.
From Files Require Import M3u Fs Proofs_Fs.
Import ListNotations.
Open Scope Z_scope.

(* Resolution composes exactly (remaining fuel is threaded through). *)
Theorem C16_resolve_compose : forall km fs fuel cur a rest,
  walk km fs fuel cur (a ++ rest) =
  match walk km fs fuel cur a with Some (d, f') => walk km fs f' d rest | None => None end.
Proof. exact walk_app. Qed.
Print Assumptions C16_resolve_compose.

(* The last-component rule of realpath, proved for the concrete `walk`. *)
Theorem C16_last_component_rule : forall fs fuel cur dirp b d f',
  walk false fs fuel cur dirp = Some (d, S f') ->
  is_dot b = false -> str_eqb b DOTDOT = false -> is_link_at fs d b = false ->
  walk false fs fuel cur (dirp ++ [b]) = Some (d ++ [b], f').
Proof. exact walk_snoc. Qed.
Print Assumptions C16_last_component_rule.

(* T1 core.  For EVERY tree and EVERY path dirp/b (whatever '..', absolute prefix, links on
   the way or percent-decoded bytes it is made of) whose parent resolves with fuel to
   spare: if the guard lets it pass, then the directory whose entry `b` is created,
   replaced, renamed or removed lies inside the resolved playlists directory -- provided
   that IF b itself is a symbolic link THEN that link is placed inside (the property's
   scope). *)
Theorem C16_m3u_entry_confined : forall fs base dirp b d f' bb,
  walk false fs FUEL [] dirp = Some (d, S f') ->
  resolve fs base = Ok bb ->
  m3u_guard fs base (dirp ++ [b]) = Ok true ->
  is_dot b = false ->
  (is_link_at fs d b = true -> is_prefix bb d = true) ->
  is_prefix bb d = true.
Proof. exact guard_entry_inside. Qed.
Print Assumptions C16_m3u_entry_confined.

(* T1 per method: every entry delete / save / save-with-rename touch is inside. *)
Theorem C16_m3u_delete_confined : forall fs base dirp b d f' bb,
  walk false fs FUEL [] dirp = Some (d, S f') -> resolve fs base = Ok bb -> is_dot b = false ->
  (is_link_at fs d b = true -> is_prefix bb d = true) ->
  forall l, m3u_delete fs base (dirp ++ [b]) = Acts l -> Forall (fun t => touch_inside bb t = true) l.
Proof. exact delete_confined_sec. Qed.
Print Assumptions C16_m3u_delete_confined.

Theorem C16_m3u_save_confined : forall fs base dirp b d f' bb,
  walk false fs FUEL [] dirp = Some (d, S f') -> resolve fs base = Ok bb -> is_dot b = false ->
  (is_link_at fs d b = true -> is_prefix bb d = true) ->
  forall l, m3u_save fs base (dirp ++ [b]) = Acts l -> Forall (fun t => touch_inside bb t = true) l.
Proof. exact save_confined_sec. Qed.
Print Assumptions C16_m3u_save_confined.

Theorem C16_m3u_rename_confined : forall fs base dirp b d f' bb,
  walk false fs FUEL [] dirp = Some (d, S f') -> resolve fs base = Ok bb -> is_dot b = false ->
  (is_link_at fs d b = true -> is_prefix bb d = true) ->
  forall newname l, is_dot newname = false -> m3u_rename fs base (dirp ++ [b]) newname = Acts l ->
  Forall (fun t => touch_inside bb t = true) l.
Proof. exact rename_confined_sec. Qed.
Print Assumptions C16_m3u_rename_confined.

(* T1 in exact form, WITHOUT the scope hypothesis (this covers the scope note): whatever
   passes the guard, the directory entry acted on lies inside the playlists directory, OR
   it is a symbolic link -- wherever it is placed -- whose resolved target lies inside.
   Nothing else can be created, replaced, renamed or removed. *)
Theorem C16_m3u_entry_exact : forall fs base dirp b d f' bb,
  walk false fs FUEL [] dirp = Some (d, S f') ->
  resolve fs base = Ok bb ->
  m3u_guard fs base (dirp ++ [b]) = Ok true ->
  is_dot b = false ->
  is_prefix bb d = true \/
  (is_link_at fs d b = true /\
   exists r, resolve fs (dirp ++ [b]) = Ok r /\ is_prefix bb (removelast r) = true).
Proof. exact guard_entry_exact. Qed.
Print Assumptions C16_m3u_entry_exact.

Theorem C16_m3u_ops_exact : forall fs base dirp b d f' bb,
  walk false fs FUEL [] dirp = Some (d, S f') -> resolve fs base = Ok bb -> is_dot b = false ->
  (forall l, m3u_delete fs base (dirp ++ [b]) = Acts l ->
     Forall (fun t => touch_inside bb t = true) l \/ link_to_inside fs bb dirp b d) /\
  (forall l, m3u_save fs base (dirp ++ [b]) = Acts l ->
     Forall (fun t => touch_inside bb t = true) l \/ link_to_inside fs bb dirp b d) /\
  (forall newname l, is_dot newname = false -> m3u_rename fs base (dirp ++ [b]) newname = Acts l ->
     Forall (fun t => touch_inside bb t = true) l \/ link_to_inside fs bb dirp b d).
Proof. exact m3u_ops_exact_lemma. Qed.
Print Assumptions C16_m3u_ops_exact.

(* create(name): unconditional -- for every tree and every name (one component after
   path_from_name) everything create touches is inside the resolved playlists directory. *)
Theorem C16_m3u_create_confined : forall fs base n bb f' l,
  walk false fs FUEL [] base = Some (bb, S f') -> is_dot n = false ->
  m3u_create fs base n = Acts l -> Forall (fun t => touch_inside bb t = true) l.
Proof. exact create_confined_lemma. Qed.
Print Assumptions C16_m3u_create_confined.

(* as_list(): only names of entries of the resolved playlists directory that have a
   playlist extension and are regular files after following links. *)
Theorem C16_m3u_as_list_names : forall fs base bb names n,
  resolve fs base = Ok bb -> m3u_as_list_names fs base = Ok names -> In n names ->
  exists x, In (n, x) (entries_at fs bb) /\ mem_str (suffix n) [M3U; M3U8] = true /\
            exists r, resolve fs (bb ++ [n]) = Ok r /\ is_file fs r = true.
Proof. exact as_list_names_lemma. Qed.
Print Assumptions C16_m3u_as_list_names.

(* Reads (lookup, get_items): for every tree and every path, with NO hypothesis on links:
   a file that is read lies inside the resolved playlists directory. *)
Theorem C16_m3u_read_confined : forall fs base p bb l,
  resolve fs base = Ok bb -> m3u_lookup fs base p = Acts l ->
  Forall (fun t => touch_inside bb t = true) l.
Proof. exact lookup_confined_lemma. Qed.
Print Assumptions C16_m3u_read_confined.

(* The guard refuses a path that resolves to the playlists directory itself ... *)
Theorem C16_guard_refuses_playlists_dir : forall fs base bb p,
  resolve fs base = Ok bb -> resolve fs p = Ok bb -> m3u_guard fs base p = Ok false.
Proof. exact guard_refuses_base. Qed.
Print Assumptions C16_guard_refuses_playlists_dir.

(* ... which the guard before the fix did not: save("m3u:.") created its temporary file
   in the parent of the playlists directory. *)
Theorem C16_old_guard_refuted :
  m3u_save_with m3u_guard_old w_fs w_base w_base = Acts [TCreateIn [[114]]; TEntry [[114]] [105]]
  /\ touch_inside w_base (TCreateIn [[114]]) = false
  /\ m3u_save w_fs w_base w_base = Refused.
Proof. exact old_guard_refuted_lemma. Qed.
Print Assumptions C16_old_guard_refuted.

(* The scope hypothesis of T1 is necessary (known finding): a link placed OUTSIDE the
   playlists directory that points into it passes the guard and is itself removed. *)
Theorem C16_scope_hypothesis_necessary :
  let p := [[114]; [111]; [108]] in
  m3u_delete w_fs w_base p = Acts [TEntry [[114]; [111]] [108]]
  /\ touch_inside w_base (TEntry [[114]; [111]] [108]) = false
  /\ is_link_at w_fs [[114]; [111]] [108] = true.
Proof. exact scope_necessary_lemma. Qed.
Print Assumptions C16_scope_hypothesis_necessary.

(* ... and its hypothesis on the new name is necessary (the kernel refuses this rename). *)
Theorem C16_rename_dot_targets_playlists_dir_entry :
  m3u_rename w_fs w_base (w_base ++ [[97]]) [46] =
    Acts [TCreateIn w_base; TEntry w_base [97]; TEntry w_base [97]; TEntry [[114]] [105]]
  /\ touch_inside w_base (TEntry [[114]] [105]) = false.
Proof. exact rename_dot_target_lemma. Qed.
Print Assumptions C16_rename_dot_targets_playlists_dir_entry.

Theorem C16_confined_nonvacuous :
  let dirp := [[114]; [105]; [46; 46]; [105]] in
  walk false w_fs FUEL [] dirp = Some (w_base, 396%nat) /\
  resolve w_fs w_base = Ok w_base /\
  m3u_guard w_fs w_base (dirp ++ [[97]]) = Ok true /\
  m3u_delete w_fs w_base (dirp ++ [[97]]) = Acts [TEntry w_base [97]].
Proof. exact confined_nonvacuous. Qed.
Print Assumptions C16_confined_nonvacuous.

(* T2 + T3 (soundness): every Ref that browse returns, for every tree, every list of media
   directories, every settings combination and every path: its resolved target is inside a
   media directory, the browsed directory is inside one, the entry is a member of that
   directory, it passes the dotfile / excluded-extension / follow-symlinks settings, and
   its type matches what the resolved target is. *)
Theorem C16_browse_sound : forall fs mdirs st p refs k n child,
  browse fs mdirs st p = Ok refs -> In (k, n, child) refs ->
  inside_any fs mdirs child = Ok true /\
  inside_any fs mdirs p = Ok true /\
  exists kr e, kpath fs p = Some kr /\ In e (entries_at fs kr) /\ n = fst e /\
               resolve fs (kr ++ [n]) = Ok child /\ entry_allowed st e /\
               match k with KDir => is_dir fs child = true | KTrack => is_file fs child = true end.
Proof. exact browse_sound_lemma. Qed.
Print Assumptions C16_browse_sound.

(* "inside a media directory" unfolded: after resolving symlinks, some media directory's
   resolved path is a prefix of the entry's directory *)
Theorem C16_inside_any_meaning : forall fs mdirs p,
  inside_any fs mdirs p = Ok true -> exists m, In m mdirs /\ inside_base fs m p = Ok true.
Proof. exact inside_any_true. Qed.
Print Assumptions C16_inside_any_meaning.

Theorem C16_inside_base_meaning : forall fs m p,
  inside_base fs m p = Ok true ->
  exists r mb, resolve fs p = Ok r /\ resolve fs m = Ok mb /\
               is_prefix mb (if is_file fs r then removelast r else r) = true.
Proof. exact inside_base_true. Qed.
Print Assumptions C16_inside_base_meaning.

(* T3 (completeness for one entry): an entry allowed by the settings that resolves inside
   to a directory or file is listed. *)
Theorem C16_browse_entry_complete : forall fs mdirs st dirp e child,
  resolve fs (dirp ++ [fst e]) = Ok child -> inside_any fs mdirs child = Ok true ->
  entry_allowed st e -> (is_dir fs child = true \/ is_file fs child = true) ->
  exists k, browse_entry fs mdirs st dirp e = Ok (Some (k, fst e, child)).
Proof. exact browse_entry_complete. Qed.
Print Assumptions C16_browse_entry_complete.
