(* Files/Fs.v -- a tree file system with regular files, directories and symbolic links,
   path resolution (os.path.realpath, non-strict), the guard
   mopidy.internal.path.is_path_inside_base_dir, and on top of it the path handling of
   M3UPlaylistsProvider (which directory entries each method acts on) and of
   FileLibraryProvider.browse.

   Names are byte strings; a path is the list of its components below the root.
   Oracles / not modelled: urlsplit (the model receives `urlsplit(uri).path`), str.lower
   beyond ASCII, the kernel's refusal to unlink/rename "." and "..", TOCTOU races. *)
From Coq Require Import ZArith List Bool Lia.
From Common Require Import Str Res.
From Files Require Import M3u.
Import ListNotations.
Open Scope Z_scope.

Definition name := str.
Definition path := list name.

Inductive node :=
| F                                     (* regular file (content is irrelevant here) *)
| D (entries : list (name * node))
| L (target : path) (absolute : bool).  (* symbolic link *)

Fixpoint find_entry (n : name) (es : list (name * node)) : option node :=
  match es with
  | [] => None
  | (m, x) :: t => if str_eqb n m then Some x else find_entry n t
  end.

(* the node stored under a fully resolved path (no link is followed) *)
Fixpoint lookup_node (fs : node) (p : path) : option node :=
  match p with
  | [] => Some fs
  | c :: t =>
      match fs with
      | D es => match find_entry c es with Some x => lookup_node x t | None => None end
      | _ => None
      end
  end.

Definition DOTDOT : name := [46; 46].
Definition is_dot (c : name) : bool := match c with [] => true | [46] => true | _ => false end.

(* os.path.realpath(strict=False): walk the components; "" and "." are skipped, ".." pops
   lexically, a symbolic link is replaced by its target, anything else (existing or not) is
   appended.  The remaining fuel is returned so that resolution composes exactly.
   kmode = true is the kernel's own walk (what open/stat/listdir do with an unresolved
   path): every step additionally needs the current node to be a directory (ENOTDIR /
   ENOENT otherwise), which differs from realpath for "file/../x". *)
Definition dir_at (fs : node) (r : path) : bool :=
  match lookup_node fs r with Some (D _) => true | _ => false end.

Fixpoint walk (kmode : bool) (fs : node) (fuel : nat) (cur : path) (todo : path) : option (path * nat) :=
  match todo with
  | [] => Some (cur, fuel)
  | c :: t =>
      match fuel with
      | O => None
      | S k =>
          if kmode && negb (dir_at fs cur) then None
          else if is_dot c then walk kmode fs k cur t
          else if str_eqb c DOTDOT then walk kmode fs k (removelast cur) t
          else
            match lookup_node fs (cur ++ [c]) with
            | Some (L tgt abs) => walk kmode fs k (if abs then [] else cur) (tgt ++ t)
            | _ => walk kmode fs k (cur ++ [c]) t
            end
      end
  end.

Definition FUEL : nat := 400.
Definition realpath (fs : node) (p : path) : option path :=
  match walk false fs FUEL [] p with Some (r, _) => Some r | None => None end.
(* where the kernel ends up for an unresolved path (None: the walk fails) *)
Definition kpath (fs : node) (p : path) : option path :=
  match walk true fs FUEL [] p with Some (r, _) => Some r | None => None end.

Definition is_file (fs : node) (r : path) : bool :=
  match lookup_node fs r with Some F => true | _ => false end.
Definition is_dir (fs : node) (r : path) : bool :=
  match lookup_node fs r with Some (D _) => true | _ => false end.
Definition is_link_at (fs : node) (d : path) (b : name) : bool :=
  match lookup_node fs (d ++ [b]) with Some (L _ _) => true | _ => false end.

Fixpoint is_prefix (a b : path) : bool :=
  match a, b with
  | [], _ => true
  | x :: a', y :: b' => str_eqb x y && is_prefix a' b'
  | _ :: _, [] => false
  end.

Definition path_eqb (a b : path) : bool := list_eqb str_eqb a b.

(* a component longer than NAME_MAX makes stat fail with ENAMETOOLONG, but only when the
   directories before it exist (otherwise the lookup already failed with ENOENT/ENOTDIR,
   which Path.is_file ignores) *)
Fixpoint too_long_from (fs : node) (pre rest : path) : bool :=
  match rest with
  | [] => false
  | c :: t =>
      if is_dir fs pre then
        if 255 <? Z.of_nat (length c) then true else too_long_from fs (pre ++ [c]) t
      else false
  end.
Definition too_long (fs : node) (r : path) : bool := too_long_from fs [] r.
Definition has_nul (p : path) : bool := existsb (fun c => existsb (fun x => x =? 0) c) p.

Inductive gexn := GLoop | GOSError | GValueError | GBackendError.

(* resolve + the stat done by Path.resolve / Path.is_file: an embedded NUL raises
   ValueError, a symlink loop RuntimeError, a component longer than NAME_MAX OSError *)
Definition resolve (fs : node) (p : path) : res gexn path :=
  if has_nul p then Raise GValueError
  else match realpath fs p with
       | None => Raise GLoop
       | Some r => if too_long fs r then Raise GOSError else Ok r
       end.

(* mopidy.internal.path.is_path_inside_base_dir(path, base) *)
Definition inside_base (fs : node) (base p : path) : res gexn bool :=
  rbind (resolve fs p) (fun r =>
  rbind (resolve fs base) (fun b =>
    let r' := if is_file fs r then removelast r else r in
    Ok (is_prefix b r'))).

(* M3UPlaylistsProvider._is_in_basedir after the fix: additionally the path must not be
   the playlists directory itself *)
Definition m3u_guard_old := inside_base.
Definition m3u_guard (fs : node) (base p : path) : res gexn bool :=
  rbind (resolve fs p) (fun r =>
  rbind (resolve fs base) (fun b =>
    if path_eqb r b then Ok false
    else let r' := if is_file fs r then removelast r else r in Ok (is_prefix b r'))).

(* ------------------------------------------------------------------ uri -> path *)

(* utf8, hexval, unquote: see M3u.v *)
Definition unquote_to_bytes (s : str) : list Z := unquote (flat_map utf8 s).

(* pathlib.PurePosixPath(bytes.decode(surrogateescape)): split at '/', drop "" and "." *)
Definition split_slash (b : list Z) : list name := split1 47 b.
Definition pure_path (b : list Z) : bool * path :=
  (match b with 47 :: _ => true | _ => false end,
   filter (fun c => negb (is_dot c)) (split_slash b)).

(* uri_to_path then _abspath: relative paths are taken below the playlists directory *)
Definition abs_path (base : path) (upath : str) : path :=
  let '(abs, comps) := pure_path (unquote_to_bytes upath) in
  if abs then comps else base ++ comps.

(* ------------------------------------------------------------------ M3U provider *)

(* What a method touches: a directory entry (resolved directory, name) that it creates,
   replaces, renames or removes; a file it reads (fully resolved); a directory it lists. *)
Inductive touch :=
| TEntry (dir : path) (n : name)
| TCreateIn (dir : path)
| TRead (file : path)
| TList (dir : path).

Inductive outcome :=
| Refused                       (* the guard said no: nothing is touched *)
| Raised (e : gexn)
| Acts (l : list touch).

Definition parent (p : path) : path := removelast p.
Definition base_name (p : path) : name := last p [].

Definition with_guard (g : node -> path -> path -> res gexn bool) (fs : node) (base p : path)
           (k : res gexn (list touch)) : outcome :=
  match g fs base p with
  | Raise e => Raised e
  | Diverge => Raised GLoop
  | Ok false => Refused
  | Ok true => match k with Ok l => Acts l | Raise e => Raised e | Diverge => Raised GLoop end
  end.

Definition entry_of (fs : node) (p : path) : res gexn touch :=
  rbind (resolve fs (parent p)) (fun d => Ok (TEntry d (base_name p))).

Definition m3u_delete_with g (fs : node) (base p : path) : outcome :=
  with_guard g fs base p (rbind (entry_of fs p) (fun e => Ok [e])).

Definition m3u_lookup_with g (fs : node) (base p : path) : outcome :=
  with_guard g fs base p (rbind (resolve fs p) (fun r => Ok [TRead r])).

(* save without rename: mkstemp(dir=path.parent); rename(temp, path) *)
Definition m3u_save_with g (fs : node) (base p : path) : outcome :=
  with_guard g fs base p
    (rbind (resolve fs (parent p)) (fun d => Ok [TCreateIn d; TEntry d (base_name p)])).

(* the additional rename of save(): (parent p, name p) -> (playlists dir, new file name).
   newname = path_from_name(name.strip(), suffix of p) is a single component (separators
   are replaced), but for a URI without extension it can be "" / "." (pathlib drops it:
   the destination is then the playlists directory itself, i.e. its entry in ITS parent)
   or ".." (entry ".." of the playlists directory).  Path.rename() of a regular file onto
   a directory always fails in the kernel (EISDIR / ENOTEMPTY / EBUSY): kernel behaviour,
   not modelled, checked by the monitors (only successful calls count as effects). *)
Definition rename_target (b : path) (newname : name) : touch :=
  if is_dot newname then TEntry (parent b) (base_name b) else TEntry b newname.
Definition m3u_rename_with g (fs : node) (base p : path) (newname : name) : outcome :=
  with_guard g fs base p
    (rbind (resolve fs (parent p)) (fun d =>
     rbind (resolve fs base) (fun b =>
       Ok [TCreateIn d; TEntry d (base_name p); TEntry d (base_name p); rename_target b newname]))).

Definition m3u_as_list (fs : node) (base : path) : outcome :=
  match resolve fs base with Ok b => Acts [TList b] | Raise e => Raised e | Diverge => Raised GLoop end.

(* create(name): path = path_from_name(name.strip(), default_extension) -- one component,
   separators replaced -- then `with self._open(path, "w")` INSIDE `try ... except OSError`:
   a refusing guard makes _open raise BackendError (it escapes), an OSError from resolving
   is logged and None is returned (nothing touched). *)
Definition create_component (stripped_name ext : name) : name :=
  map (fun c => if c =? 47 then 124 else c) stripped_name ++ ext.
Definition m3u_create_with g (fs : node) (base : path) (n : name) : outcome :=
  let p := base ++ [n] in
  match g fs base p with
  | Raise GOSError => Refused
  | Raise e => Raised e
  | Diverge => Raised GLoop
  | Ok false => Raised GBackendError
  | Ok true =>
      match resolve fs (parent p) with
      | Ok d => Acts [TCreateIn d; TEntry d (base_name p)]
      | Raise GOSError => Refused
      | Raise e => Raised e
      | Diverge => Raised GLoop
      end
  end.

Definition entries_at (fs : node) (r : path) : list (name * node) :=
  match lookup_node fs r with Some (D es) => es | _ => [] end.

(* as_list(): iterdir(playlists_dir); keep entries whose pathlib suffix is .m3u/.m3u8 and
   for which is_file() holds (it follows symbolic links; errors count as "no") *)
Definition listed_entry (fs : node) (b : path) (e : name * node) : bool :=
  mem_str (suffix (fst e)) [M3U; M3U8] &&
  match resolve fs (b ++ [fst e]) with Ok r => is_file fs r | _ => false end.
Definition m3u_as_list_names (fs : node) (base : path) : res gexn (list name) :=
  rbind (resolve fs base) (fun b => Ok (map fst (filter (listed_entry fs b) (entries_at fs b)))).

Definition m3u_delete := m3u_delete_with m3u_guard.
Definition m3u_create := m3u_create_with m3u_guard.
Definition m3u_lookup := m3u_lookup_with m3u_guard.
Definition m3u_save := m3u_save_with m3u_guard.
Definition m3u_rename := m3u_rename_with m3u_guard.

Definition touch_inside (b : path) (t : touch) : bool :=
  match t with
  | TEntry d _ | TCreateIn d | TList d => is_prefix b d
  | TRead f => is_prefix b (removelast f)
  end.

(* ------------------------------------------------------------------ file browse *)

Record settings := mkS {
  show_dotfiles : bool;
  excluded : list str;         (* lower-cased extensions, with the dot *)
  follow_symlinks : bool;
}.

Definition lower (s : str) : str := map ascii_lower s.

Definition inside_any (fs : node) (mdirs : list path) (p : path) : res gexn bool :=
  fold_right (fun m acc => rbind (inside_base fs m p) (fun b => if b then Ok true else acc)) (Ok false) mdirs.

Inductive kind := KDir | KTrack.
Definition ref := (kind * name * path)%type.     (* type, name, resolved child *)



(* one directory entry of browse(); None: filtered out *)
Definition browse_entry (fs : node) (mdirs : list path) (st : settings) (dirp : path)
           (e : name * node) : res gexn (option ref) :=
  let n := fst e in
  rbind (resolve fs (dirp ++ [n])) (fun child =>
    if negb (show_dotfiles st) && starts_with [46] n then Ok None
    else if negb (match excluded st with [] => true | _ => false end)
            && mem_str (lower (suffix n)) (excluded st) then Ok None
    else if (match snd e with L _ _ => true | _ => false end) && negb (follow_symlinks st) then Ok None
    else rbind (inside_any fs mdirs child) (fun ins =>
      if negb ins then Ok None
      else if is_dir fs child then Ok (Some (KDir, n, child))
      else if is_file fs child then Ok (Some (KTrack, n, child))
      else Ok None)).

Fixpoint collect {A} (l : list (res gexn (option A))) : res gexn (list A) :=
  match l with
  | [] => Ok []
  | x :: t => rbind x (fun o => rbind (collect t) (fun r => Ok (match o with Some a => a :: r | None => r end)))
  end.

(* FileLibraryProvider.browse for a path (uri_to_path(uri) != "root") *)
Definition browse (fs : node) (mdirs : list path) (st : settings) (p : path) : res gexn (list ref) :=
  rbind (inside_any fs mdirs p) (fun ins =>
    if negb ins then Ok []
    else rbind (resolve fs p) (fun r =>
      match kpath fs p with
      | None => Raise GOSError                               (* is_file() False, iterdir raises *)
      | Some kr =>
          if is_file fs kr then Ok []
          else if negb (is_dir fs kr) then Raise GOSError    (* iterdir: FileNotFoundError *)
          else collect (map (browse_entry fs mdirs st kr) (entries_at fs kr))
      end)).

(* ------------------------------------------------------------------ evaluation helpers *)

Definition touch_eqb (a b : touch) : bool :=
  match a, b with
  | TEntry d n, TEntry e m => path_eqb d e && str_eqb n m
  | TCreateIn d, TCreateIn e | TRead d, TRead e | TList d, TList e => path_eqb d e
  | _, _ => false
  end.
Definition gexn_code (e : gexn) : Z :=
  match e with GLoop => 1 | GOSError => 2 | GValueError => 3 | GBackendError => 4 end.
Definition guard_code (r : res gexn bool) : Z :=
  match r with Ok true => 10 | Ok false => 11 | Raise e => gexn_code e | Diverge => 1 end.
Definition same_names (a b : list name) : bool :=
  forallb (fun x => mem_str x b) a && forallb (fun x => mem_str x a) b.
Definition subset_touch (a b : list touch) : bool := forallb (fun x => existsb (touch_eqb x) b) a.
Definition ref_eqb (a b : ref) : bool :=
  let '(k, n, p) := a in let '(k', n', p') := b in
  (match k, k' with KDir, KDir | KTrack, KTrack => true | _, _ => false end) && str_eqb n n' && path_eqb p p'.
Definition same_refs (a b : list ref) : bool :=
  Nat.eqb (length a) (length b) && forallb (fun x => existsb (ref_eqb x) b) a && forallb (fun x => existsb (ref_eqb x) a) b.
