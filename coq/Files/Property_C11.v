(* C11 property theorems.  Nothing but statements, `exact`, and Print Assumptions.
   Models: AtomicFile.v; proofs: Proofs_Atomic.v. *)
From Coq Require Import ZArith List Bool.
From Common Require Import Str Res.
From Files Require Import AtomicFile Proofs_Atomic Proofs_Durable Proofs_Load.
Import ListNotations.
Open Scope Z_scope.

(* T1: the boolean evaluated on translated strace logs is exactly crash atomicity: at
   every crash point k the target holds the complete old or the complete new content. *)
Theorem C11_crash_atomic_sound : forall ops target old new,
  crash_atomic_b ops target old new = true ->
  forall k : nat,
    read (crash ops k (init target old)) target = old \/
    read (crash ops k (init target old)) target = Some new.
Proof. exact crash_atomic_sound_lemma. Qed.
Print Assumptions C11_crash_atomic_sound.

Theorem C11_crash_atomic_exact : forall ops target old new,
  crash_atomic_b ops target old new = true <-> crash_atomic (init target old) ops target old new.
Proof. exact crash_atomic_exact_lemma. Qed.
Print Assumptions C11_crash_atomic_exact.

(* T2: every process-level program of the shape
     create temp (O_EXCL); buffered writes interleaved with flushes; flush everything;
     [fsync/close]*; rename temp -> target; [fsync/close]*
   is crash-atomic for every start state (any old content, any other files), every
   payload, every placement of automatic flushes and every split of every flush into
   write(2) calls; it ends with the payload in place, no temporary file, nothing else
   touched. *)
Theorem C11_protocol_atomic : forall s0 f tmp target body cuts mid tail,
  wf s0 -> names s0 tmp = None -> fds s0 f = None -> tmp <> target ->
  forallb (body_b f) body = true -> forallb uquiet_b mid = true -> forallb uquiet_b tail = true ->
  let ops := compile no_bufs (uprotocol f tmp target body cuts mid tail) in
  crash_atomic s0 ops target (read s0 target) (payload body)
  /\ read (run ops s0) target = Some (payload body)
  /\ names (run ops s0) tmp = None
  /\ (forall p, p <> target -> p <> tmp -> names (run ops s0) p = names s0 p)
  /\ (forall i, i < next s0 -> data (run ops s0) i = data s0 i).
Proof. exact protocol_atomic_lemma. Qed.
Print Assumptions C11_protocol_atomic.

(* T2 at kernel level, for every list of write(2) chunks. *)
Theorem C11_kernel_protocol_atomic : forall s0 f tmp target chunks mid tail,
  wf s0 -> names s0 tmp = None -> fds s0 f = None -> tmp <> target ->
  forallb quiet_b mid = true -> forallb quiet_b tail = true ->
  let ops := kprotocol f tmp target chunks mid tail in
  crash_atomic s0 ops target (read s0 target) (concat chunks)
  /\ read (run ops s0) target = Some (concat chunks)
  /\ names (run ops s0) tmp = None
  /\ (forall p, p <> target -> p <> tmp -> names (run ops s0) p = names s0 p)
  /\ (forall i, i < next s0 -> data (run ops s0) i = data s0 i).
Proof. exact kprotocol_atomic. Qed.
Print Assumptions C11_kernel_protocol_atomic.

(* A real trace accepted by the recognizer is an instance of the protocol, hence
   crash-atomic for EVERY old content (not only the one of the observed run). *)
Theorem C11_trace_shape_atomic : forall ops target old,
  protocol_shape_b ops target = true ->
  crash_atomic (init target old) ops target old (shape_new ops)
  /\ read (run ops (init target old)) target = Some (shape_new ops)
  /\ (forall p, p <> target -> names (run ops (init target old)) p = None).
Proof. exact shape_atomic_lemma. Qed.
Print Assumptions C11_trace_shape_atomic.

(* storage.dump (after the fix) is such a program. *)
Theorem C11_dump_atomic : forall s0 f tmp target pieces cuts,
  wf s0 -> names s0 tmp = None -> fds s0 f = None -> tmp <> target ->
  let ops := compile no_bufs (dump_uops f tmp target pieces cuts) in
  let new := concat (map fst pieces) in
  crash_atomic s0 ops target (read s0 target) new
  /\ read (run ops s0) target = Some new
  /\ names (run ops s0) tmp = None.
Proof. exact dump_atomic_lemma. Qed.
Print Assumptions C11_dump_atomic.

(* T3: an OSError at ANY kernel call of the protocol, followed by the handler's unlink of
   the temporary file: target is old or new, no temporary file, nothing else touched. *)
Theorem C11_handled_failure_clean : forall s0 f tmp target body cuts mid tail j aftermath,
  wf s0 -> names s0 tmp = None -> fds s0 f = None -> tmp <> target ->
  forallb (body_b f) body = true -> forallb uquiet_b mid = true -> forallb uquiet_b tail = true ->
  forallb quiet_b aftermath = true ->
  let ops := compile no_bufs (uprotocol f tmp target body cuts mid tail) in
  let s' := fault_run ops j tmp aftermath s0 in
  (read s' target = read s0 target \/ read s' target = Some (payload body))
  /\ names s' tmp = None
  /\ (forall p, p <> target -> p <> tmp -> names s' p = names s0 p)
  /\ (forall i, i < next s0 -> data s' i = data s0 i).
Proof. exact handled_failure_clean_lemma. Qed.
Print Assumptions C11_handled_failure_clean.

(* T3': if the failing call is the rename or anything before it, the target keeps the
   OLD content even if the process later still flushes its buffer through f. *)
Theorem C11_failure_before_rename_keeps_old : forall s0 f tmp target chunks mid tail j aftermath,
  wf s0 -> names s0 tmp = None -> fds s0 f = None -> tmp <> target ->
  forallb quiet_b mid = true ->
  (j <= 1 + length chunks + length mid)%nat ->
  forallb (after_fault_b f) aftermath = true ->
  let ops := kprotocol f tmp target chunks mid tail in
  let s' := fault_run ops j tmp aftermath s0 in
  read s' target = read s0 target /\ names s' tmp = None /\
  (forall p, p <> tmp -> names s' p = names s0 p).
Proof. exact failure_before_rename_lemma. Qed.
Print Assumptions C11_failure_before_rename_keeps_old.

(* T4: storage.load returns a value for every outcome of the decoding oracle ... *)
Theorem C11_load_total : forall (A : Type) (o : decode_outcome A), exists v, load o = Ok v.
Proof. exact load_total_lemma. Qed.
Print Assumptions C11_load_total.

(* ... it returns a state only when decoding succeeded ... *)
Theorem C11_load_some_iff : forall (A : Type) (o : decode_outcome A) a,
  load o = Ok (Some a) <-> o = DOk a.
Proof. exact load_some_iff. Qed.
Print Assumptions C11_load_some_iff.

(* ... and the file handling of Core._load_state never raises and removes a regular
   file whenever unlink succeeds (so the next start is clean). *)
Theorem C11_core_load_clean : forall (A : Type) (k : fkind) (unlink_ok : bool) (o : decode_outcome A),
  exists v still,
    core_load k unlink_ok o = (Ok v, still) /\
    (k = FRegular -> unlink_ok = true -> still = false) /\
    (k = FMissing -> still = false) /\
    (forall a, v = Some a -> o = DOk a).
Proof. exact core_load_clean_lemma. Qed.
Print Assumptions C11_core_load_clean.

(* T5: the stronger crash model -- power loss.  File content is durable only after a
   successful fsync of that file; renames are durable at once.  The boolean evaluated on
   real traces (monitor trace_powerloss_atomic, also on the traces of runs in which a call
   was made to fail) is exactly "after a power loss at any point the target shows the
   complete old or the complete new content". *)
Theorem C11_powerloss_atomic_exact : forall ops target old new,
  powerloss_atomic_b ops target old new = true <->
  powerloss_atomic (dinit target old) ops target old new.
Proof. exact powerloss_atomic_exact_lemma. Qed.
Print Assumptions C11_powerloss_atomic_exact.

(* The protocol WITH a successful fsync of the temporary file between the last write and
   the rename is atomic under power loss, for every durable start state, every list of
   write chunks and every further fsync/close before or after the rename. *)
Theorem C11_powerloss_protocol_atomic : forall s0 f tmp target chunks mid tail,
  wf (ks s0) -> names (ks s0) tmp = None -> tmp <> target ->
  (forall i, i < next (ks s0) -> durable s0 i = data (ks s0) i) ->
  forallb quiet_b mid = true -> forallb quiet_b tail = true ->
  powerloss_atomic s0 (kprotocol f tmp target chunks (KFsync f :: mid) tail) target
                   (read (ks s0) target) (concat chunks).
Proof. exact durable_protocol_lemma. Qed.
Print Assumptions C11_powerloss_protocol_atomic.

Theorem C11_dump_powerloss_atomic : forall s0 f tmp target pieces cuts,
  wf (ks s0) -> names (ks s0) tmp = None -> tmp <> target ->
  (forall i, i < next (ks s0) -> durable s0 i = data (ks s0) i) ->
  powerloss_atomic s0 (compile no_bufs (dump_uops f tmp target pieces cuts)) target
                   (read (ks s0) target) (concat (map fst pieces)).
Proof. exact dump_powerloss_general_lemma. Qed.
Print Assumptions C11_dump_powerloss_atomic.

(* Without the fsync -- or with its failure ignored, so that the rename still happens --
   the protocol is atomic for process death but NOT under power loss (computed witness:
   the target ends up empty); with the fsync the same run is fine. *)
Theorem C11_no_fsync_powerloss_refuted :
  let ops := kprotocol 3 w_tmp w_target [[4; 5; 6]] [KClose 3] [] in
  crash_atomic_b ops w_target (Some [1; 2]) [4; 5; 6] = true /\
  powerloss_atomic_b ops w_target (Some [1; 2]) [4; 5; 6] = false /\
  pl_read (drun ops (dinit w_target (Some [1; 2]))) w_target = Some [] /\
  powerloss_atomic_b (kprotocol 3 w_tmp w_target [[4; 5; 6]] [KFsync 3; KClose 3] []) w_target (Some [1; 2]) [4; 5; 6] = true.
Proof. exact no_fsync_powerloss_refuted_lemma. Qed.
Print Assumptions C11_no_fsync_powerloss_refuted.

(* T6: the load side in stages (gunzip oracle, validate oracle) and the composition
   save ; crash ; load at the level of the DECODED session.  `gunzip`, `validate` and the
   encoder `enc` are universally quantified oracles; the only hypothesis is that what dump
   writes for a state decodes to that state. *)
Theorem C11_load_file_total : forall A gunzip (validate : bytes -> js_outcome A) content,
  exists v, load_file gunzip validate content = Ok v.
Proof. exact load_file_total_sec. Qed.
Print Assumptions C11_load_file_total.

Theorem C11_load_file_some_iff : forall A gunzip (validate : bytes -> js_outcome A) content a,
  load_file gunzip validate content = Ok (Some a) <->
  exists b p, content = Some b /\ gunzip b = GzOk p /\ validate p = JsOk a.
Proof. exact load_file_some_sec. Qed.
Print Assumptions C11_load_file_some_iff.

(* an unreadable state file (whichever stage fails: not gzip, truncated, corrupt deflate
   data, bad UTF-8, not JSON, wrong schema) behaves exactly like no state file *)
Theorem C11_unreadable_like_missing : forall A gunzip (validate : bytes -> js_outcome A) default b,
  (forall p a, gunzip b = GzOk p -> validate p <> JsOk a) ->
  load_file gunzip validate (Some b) = load_file gunzip validate None /\
  session_of default (load_file gunzip validate (Some b)) = default.
Proof. exact unreadable_like_missing_lemma. Qed.
Print Assumptions C11_unreadable_like_missing.

Theorem C11_dump_crash_load : forall A gunzip (validate : bytes -> js_outcome A) (enc : A -> bytes),
  (forall a, exists p, gunzip (enc a) = GzOk p /\ validate p = JsOk a) ->
  forall s0 f tmp target chunks mid tail new_state,
  wf s0 -> names s0 tmp = None -> fds s0 f = None -> tmp <> target ->
  forallb quiet_b mid = true -> forallb quiet_b tail = true ->
  concat chunks = enc new_state ->
  forall k : nat,
    let after := read (crash (kprotocol f tmp target chunks mid tail) k s0) target in
    load_file gunzip validate after = load_file gunzip validate (read s0 target) \/
    load_file gunzip validate after = Ok (Some new_state).
Proof. exact dump_crash_load_sec. Qed.
Print Assumptions C11_dump_crash_load.

Theorem C11_dump_powerloss_load : forall A gunzip (validate : bytes -> js_outcome A) (enc : A -> bytes),
  (forall a, exists p, gunzip (enc a) = GzOk p /\ validate p = JsOk a) ->
  forall s0 f tmp target chunks mid tail new_state,
  wf (ks s0) -> names (ks s0) tmp = None -> tmp <> target ->
  (forall i, i < next (ks s0) -> durable s0 i = data (ks s0) i) ->
  forallb quiet_b mid = true -> forallb quiet_b tail = true ->
  concat chunks = enc new_state ->
  forall k : nat,
    let after := pl_read (drun (firstn k (kprotocol f tmp target chunks (KFsync f :: mid) tail)) s0) target in
    load_file gunzip validate after = load_file gunzip validate (read (ks s0) target) \/
    load_file gunzip validate after = Ok (Some new_state).
Proof. exact dump_powerloss_load_sec. Qed.
Print Assumptions C11_dump_powerloss_load.

(* the session restored by the next start is the old one or the new one, never a third *)
Theorem C11_restart_session : forall A gunzip (validate : bytes -> js_outcome A) (enc : A -> bytes),
  (forall a, exists p, gunzip (enc a) = GzOk p /\ validate p = JsOk a) ->
  forall s0 f tmp target chunks mid tail old_state new_state default,
  wf s0 -> names s0 tmp = None -> fds s0 f = None -> tmp <> target ->
  forallb quiet_b mid = true -> forallb quiet_b tail = true ->
  concat chunks = enc new_state ->
  read s0 target = Some (enc old_state) ->
  forall k : nat,
    let sess := session_of default (load_file gunzip validate
                  (read (crash (kprotocol f tmp target chunks mid tail) k s0) target)) in
    sess = old_state \/ sess = new_state.
Proof. exact restart_session_sec. Qed.
Print Assumptions C11_restart_session.

(* restoring = load ; unlink ; apply.  Whether the state file is consumed does not depend on
   whether the decoded state can be applied: a file that parses but cannot be applied is
   removed like any other, so the NEXT start is clean as well.  The other order is refuted. *)
Theorem C11_restore_consumes_file : forall (A : Type) (k : fkind) (unlink_ok apply_raises : bool) (o : decode_outcome A),
  snd (core_restore k unlink_ok apply_raises o) = snd (core_load k unlink_ok o) /\
  (k = FRegular -> unlink_ok = true -> snd (core_restore k unlink_ok apply_raises o) = false) /\
  (k = FMissing -> snd (core_restore k unlink_ok apply_raises o) = false).
Proof. exact core_restore_consumes_lemma. Qed.
Print Assumptions C11_restore_consumes_file.

Theorem C11_late_unlink_refuted :
  snd (core_restore_late_unlink FRegular true true (DOk tt)) = true /\
  snd (core_restore FRegular true true (DOk tt)) = false.
Proof. exact late_unlink_refuted_lemma. Qed.
Print Assumptions C11_late_unlink_refuted.

(* The code before the fix commits (kept machine-checked): *)
Theorem C11_dump_old_refuted :
  exists old new k,
    let ops := compile no_bufs (dump_old_uops 3 w_tmp w_target [(new, None)] []) in
    crash_atomic_b ops w_target old new = false /\
    read (crash ops k (init w_target old)) w_target = Some [] /\
    Some [] <> old /\ [] <> new.
Proof. exact dump_old_refuted_lemma. Qed.
Print Assumptions C11_dump_old_refuted.

(* the code between the two load fixes: a tl_track object without tlid/track (TypeError from
   the model's __init__) escaped, the file stayed *)
Theorem C11_load_typeerror_refuted :
  exists o : decode_outcome unit,
    outcome_fits FRegular o = true /\
    is_raise (load_no_typeerror o) = true /\
    snd (core_load_with load_no_typeerror FRegular true o) = true /\
    load o = Ok None.
Proof. exact load_no_typeerror_refuted_lemma. Qed.
Print Assumptions C11_load_typeerror_refuted.

Theorem C11_load_old_refuted :
  exists o : decode_outcome unit,
    outcome_fits FRegular o = true /\
    is_raise (load_old o) = true /\
    snd (core_load_old FRegular true o) = true.
Proof. exact load_old_refuted_lemma. Qed.
Print Assumptions C11_load_old_refuted.

(* Non-vacuity of the hypotheses of T2/T3 on a concrete run (3 write calls). *)
Theorem C11_protocol_nonvacuous :
  let s0 := init w_target (Some [1; 2; 3]) in
  let ops := compile no_bufs (dump_uops 3 w_tmp w_target [([4; 5], None); ([6; 7; 8], Some [0%nat]); ([9], None)] [1%nat]) in
  wf s0 /\ names s0 w_tmp = None /\ fds s0 3 = None /\ w_tmp <> w_target /\
  length ops = 7%nat /\ protocol_shape_b ops w_target = true /\
  crash_atomic_b ops w_target (Some [1; 2; 3]) [4; 5; 6; 7; 8; 9] = true /\
  read (run ops s0) w_target = Some [4; 5; 6; 7; 8; 9].
Proof. exact protocol_nonvacuous. Qed.
Print Assumptions C11_protocol_nonvacuous.
