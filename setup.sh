#!/bin/bash
# Build every Coq area from a fresh restore (full .vo builds, offline).
set -u
cd "$(dirname "$0")/coq"
rc=0
( cd Common && coq_makefile -f _CoqProject -o Makefile.coq >/dev/null 2>&1 && timeout 1200 make -f Makefile.coq -j8 ) || rc=1
for d in */; do
  d=${d%/}
  [ "$d" = Common ] && continue
  [ -f "$d/_CoqProject" ] || continue
  ( cd "$d" && coq_makefile -f _CoqProject -o Makefile.coq >/dev/null 2>&1 && timeout 2400 make -f Makefile.coq -j4 ) > "/tmp/verif-setup-$d.log" 2>&1 &
done
wait
for d in */; do d=${d%/}; [ -f "/tmp/verif-setup-$d.log" ] && { tail -3 "/tmp/verif-setup-$d.log"; rm -f "/tmp/verif-setup-$d.log"; }; done
exit $rc
