#!/bin/bash
# Re-evaluates every round-3 seeded change against a scratch worktree at /repo's HEAD and
# records the outcome as final_result in its meta.json.  usage: final_eval_r3.sh <scratch-dir>
wt="$1"; out=/tmp/final_r3.jsonl; : > "$out"
git -C /repo worktree add --detach "$wt" HEAD >/dev/null 2>&1 || { git -C "$wt" checkout -q --detach "$(git -C /repo rev-parse HEAD)"; }
for d in /verif/seeded/*-r3-*/; do
  /verif/tools/eval_mutation.sh "$wt" "${d%/}" >> "$out"
done
python3 - <<'PY'
import json
for l in open('/tmp/final_r3.jsonl'):
    d=json.loads(l)
    p=f"/verif/seeded/{d['name']}/meta.json"
    try: m=json.load(open(p))
    except Exception: continue
    m['final_result']={"check_rc":d.get('check_rc'),"violations":d.get('violations'),
                       "no_failing_input_found":bool(d.get('no_failing_input')),"caught_by":d.get('caught_by'),
                       "demo_exit_clean":d.get('demo_clean'),"demo_exit_patched":d.get('demo_patched'),"repo_tests_lost":d.get('tests_lost')}
    json.dump(m,open(p,'w'),indent=1)
PY
git -C /repo worktree remove --force "$wt"
echo done
