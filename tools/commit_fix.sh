#!/bin/bash
# usage: commit_fix.sh <seeded-name> <file> "<commit message>"   (edits already in /repo working tree)
set -e
name="$1"; file="$2"; msg="$3"
flock /tmp/repo-fix.lock bash -c "
  /verif/tools/gate.sh || { echo GATE FAILED; exit 1; }
  git -C /repo add '$file' && git -C /repo commit -q -m \"$msg\"
"
mkdir -p /verif/seeded/$name
git -C /repo diff HEAD HEAD~1 -- "$file" > /verif/seeded/$name/patch.diff
git -C /repo log --oneline | head -1
