#!/bin/bash
# usage: eval_mutation.sh <worktree> <mutation-dir>   -> prints one JSON line
# Confirms the mutation (demo passes clean / fails patched, repo tests still pass against the
# patched tree) and runs the property's quick check against the patched worktree.
wt="$1"; d="$2"
name=$(basename "$d"); prop=${name%%-*}
export PYTHONDONTWRITEBYTECODE=1 PYTHONHASHSEED=0
git -C "$wt" checkout -q -- src 2>/dev/null
run_demo() { (cd "$d" && PYTHONPATH="$wt/src:/tmp/fakegi" timeout 300 /venv/bin/python demo.py >/dev/null 2>&1); echo $?; }
clean=$(run_demo)
if ! git -C "$wt" apply "$d/patch.diff" 2>/dev/null; then echo "{\"name\":\"$name\",\"error\":\"patch does not apply\"}"; exit 0; fi
patched=$(run_demo)
tmp=$(mktemp)
(cd "$wt" && PYTHONPATH="$wt/src:/tmp/fakegi" timeout 900 /venv/bin/python -m pytest -q -p no:cacheprovider --timeout=900 --continue-on-collection-errors -rA tests 2>&1 | grep -E '^PASSED ' | sed 's/^PASSED //' | sed "s#$wt/#/repo/#g" | sort > "$tmp")
lost=$(comm -23 <(sed 's#/tmp/mut[0-9]*/#/repo/#g' /verif/tools/src_tests_baseline.txt | sort) "$tmp" | wc -l)
rm -f "$tmp"
s=$(date +%s)
out=$(cd /verif && VERIF_REPO="$wt" timeout 1800 ./check "$prop" --tier quick 2>&1); rc=$?
e=$(date +%s)
viol=$(echo "$out" | grep -c '^VIOLATION')
nofail=$(echo "$out" | grep -c 'no-failing-input-found')
replay=$(echo "$out" | grep '^VIOLATION' | head -1 | sed 's/.*replay=\([^ ]*\).*/\1/')
mon=""
if [ -n "$replay" ] && [ -f "$replay" ]; then mon=$(python3 -c "import json,sys; d=json.load(open('$replay')); print((d.get('monitor') or ','.join(d.get('no_longer_checks',[])[:3]))[:80])" 2>/dev/null); fi
git -C "$wt" checkout -q -- src
echo "{\"name\":\"$name\",\"prop\":\"$prop\",\"demo_clean\":$clean,\"demo_patched\":$patched,\"tests_lost\":$lost,\"check_rc\":$rc,\"violations\":$viol,\"no_failing_input\":$nofail,\"caught_by\":\"$mon\",\"secs\":$((e-s))}"
