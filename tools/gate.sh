#!/bin/bash
# Regression gates for a fix: commit in /repo (DESIGN.md 1.3):
#  (a) the pinned 438-test baseline command still passes the same tests,
#  (b) every repo test that passed against /repo/src before still passes.
set -u
tmp=$(mktemp -d)
trap 'rm -rf "$tmp"' EXIT
/verif/tools/src_tests.sh "$tmp/now.txt"
lost=$(comm -23 /verif/tools/src_tests_baseline.txt "$tmp/now.txt")
if [ -n "$lost" ]; then echo "SRC TESTS LOST:"; echo "$lost"; rc=1; else echo "src tests: all $(wc -l < /verif/tools/src_tests_baseline.txt) baseline passes still pass ($(wc -l < "$tmp/now.txt") pass now)"; rc=0; fi
cd /repo && /venv/bin/python -m pytest -ra -q -p no:cacheprovider --timeout=900 --continue-on-collection-errors --junitxml="$tmp/j.xml" >/dev/null 2>&1
/venv/bin/python - "$tmp/j.xml" <<'PY'
import sys, json, xml.etree.ElementTree as ET
base = set(json.load(open('/root/.vp/BASELINE.json'))['stable_pass'])
passed=set()
for tc in ET.parse(sys.argv[1]).getroot().iter('testcase'):
    if not any(c.tag in ('failure','error','skipped') for c in tc):
        passed.add(f"{tc.get('classname')}::{tc.get('name')}")
missing = base - passed
print(f"baseline: {len(base & passed)}/{len(base)} stable tests pass")
if missing:
    print("MISSING:", sorted(missing)[:20]); sys.exit(1)
PY
rc2=$?
exit $((rc | rc2))
