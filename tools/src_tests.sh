#!/bin/bash
# Run the repository's own tests against /repo/src (not the site-packages copy) under the
# fake gi; prints the sorted list of passing test ids to $1.
out="${1:-/dev/stdout}"
repo="${VERIF_REPO:-/repo}"
cd "$repo" && PYTHONPATH="$repo/src:/verif/harness/fakegi" PYTHONDONTWRITEBYTECODE=1 PYTHONHASHSEED=0 \
  /venv/bin/python -m pytest -q -p no:cacheprovider --timeout=900 --continue-on-collection-errors -rA tests 2>&1 \
  | grep -E '^PASSED ' | sed 's/^PASSED //' | sort > "$out"
