#!/bin/bash
# Run every registered quick (or thorough) check sequentially; print one line per check.
tier="${1:-quick}"
cd /verif
for p in $(python3 -c "import json;print(' '.join(c['property_id'] for c in json.load(open('MANIFEST.json'))['checks']))"); do
  s=$(date +%s)
  out=$(timeout 3600 ./check $p --tier $tier 2>&1); rc=$?
  e=$(date +%s)
  echo "$p rc=$rc $((e-s))s $(echo "$out" | grep -E 'VIOLATION|KNOWN-FINDING' | cut -c1-160 | tr '\n' '|')"
done
