#!/usr/bin/env python3
"""Assemble MANIFEST.json from manifest.d/Cxx.json fragments (one per claimed property)."""
import json
from pathlib import Path

V = Path(__file__).resolve().parents[1]
props = [json.loads(l)["id"] for l in (V / "properties.jsonl").read_text().splitlines() if l.strip()]
frags = {p.stem: json.loads(p.read_text()) for p in sorted((V / "manifest.d").glob("C*.json"))}
hooks = json.loads((V / "manifest.d" / "_hooks.json").read_text())
na = json.loads((V / "manifest.d" / "_not_applicable.json").read_text())
checks = []
for pid in props:
    f = frags.get(pid)
    if not f:
        continue
    checks.append({
        "property_id": pid,
        "quick_cmd": f"./check {pid} --tier quick",
        "thorough_cmd": f"./check {pid} --tier thorough",
        "evidence_file": f"/verif/evidence/{pid}.json",
        "replay_cmd_template": f"./check {pid} --replay {{path}}",
        "engine": "coq-model+correspondence",
        "level_claimed": {"category": "proof", "text": f["level_text"], "design_ref": f.get("design_ref", f"DESIGN.md section 4, {pid}")},
        "level_note": f["level_note"],
        "technique": f["technique"],
    })
claimed = {c["property_id"] for c in checks}
not_app = [e for e in na if e["property_id"] not in claimed]
for pid in props:
    if pid not in claimed and not any(e["property_id"] == pid for e in not_app):
        not_app.append({"property_id": pid, "reason": "check not built yet in this development; the design in DESIGN.md section 4 applies (machine-checked proof is applicable)"})
m = {
    "version": 1,
    "setup_cmd": "./setup.sh",
    "hooks": hooks,
    "engines": [{"name": "coq-model+correspondence", "path": "/verif/check",
                 "serves_properties": sorted(claimed),
                 "kind_free_text": "Coq 8.16.1 theorems about executable Gallina models (coq/<Area>), tied to /repo/src by differential evaluation of model vs implementation (vm_compute on generated cases) plus implementation-side monitors"}],
    "checks": checks,
    "not_applicable": not_app,
    "notes": "See DESIGN.md. Every check: full .vo build, forbidden-token scan, Print Assumptions audit of each property theorem, correspondence run of model vs /repo/src, implementation monitors, known_findings.json matching.",
}
(V / "MANIFEST.json").write_text(json.dumps(m, indent=1) + "\n")
print("claimed:", sorted(claimed))
