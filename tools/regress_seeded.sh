#!/bin/bash
# usage: regress_seeded.sh <scratch-worktree> <out.jsonl> [PROP ...]
# Re-runs the quick check of every seeded change of the given properties (all when none given)
# against the scratch worktree (never /repo) and records whether it is reported.
wt="$1"; out="$2"; shift 2
props="$*"
export PYTHONDONTWRITEBYTECODE=1 PYTHONHASHSEED=0
for d in /verif/seeded/*/; do
  name=$(basename "$d"); prop=${name%%-*}
  [ -f "$d/patch.diff" ] || continue
  if [ -n "$props" ] && ! echo " $props " | grep -q " $prop "; then continue; fi
  git -C "$wt" checkout -q -- . 2>/dev/null
  if ! git -C "$wt" apply "$d/patch.diff" 2>/dev/null; then echo "{\"name\":\"$name\",\"error\":\"patch does not apply\"}" >> "$out"; continue; fi
  harmless=$(python3 -c "import json;print(int(bool(json.load(open('$d/meta.json')).get('harmless'))))" 2>/dev/null || echo 0)
  o=$(cd /verif && VERIF_REPO="$wt" timeout 1800 ./check "$prop" --tier quick 2>&1); rc=$?
  viol=$(echo "$o" | grep -c '^VIOLATION'); nofail=$(echo "$o" | grep -c 'no-failing-input-found')
  echo "{\"name\":\"$name\",\"harmless\":$harmless,\"rc\":$rc,\"violations\":$viol,\"no_failing_input\":$nofail}" >> "$out"
  git -C "$wt" checkout -q -- .
done
