#!/bin/bash
# Re-evaluates seeded changes whose directory name matches <glob> against a scratch worktree at
# /repo's HEAD and records the outcome as final_result in their meta.json.
# usage: final_eval.sh <scratch-dir> '<glob>' <out.jsonl>
wt="$1"; pat="$2"; out="$3"; : > "$out"
git -C /repo worktree add --detach "$wt" HEAD >/dev/null 2>&1 || git -C "$wt" checkout -q --detach "$(git -C /repo rev-parse HEAD)"
for d in /verif/seeded/$pat/; do
  [ -f "$d/patch.diff" ] || continue
  /verif/tools/eval_mutation.sh "$wt" "${d%/}" >> "$out"
done
python3 - "$out" <<'PY'
import json,sys
for l in open(sys.argv[1]):
    d=json.loads(l)
    p=f"/verif/seeded/{d['name']}/meta.json"
    try: m=json.load(open(p))
    except Exception: continue
    if d.get('error'):
        m['final_result']={"error":d['error']}
    else:
        m['final_result']={"check_rc":d.get('check_rc'),"violations":d.get('violations'),
                       "no_failing_input_found":bool(d.get('no_failing_input')),"caught_by":d.get('caught_by'),
                       "demo_exit_clean":d.get('demo_clean'),"demo_exit_patched":d.get('demo_patched'),"repo_tests_lost":d.get('tests_lost')}
    json.dump(m,open(p,'w'),indent=1)
PY
git -C /repo worktree remove --force "$wt"
echo done >> "$out"
