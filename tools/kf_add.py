#!/usr/bin/env python3
"""Add/replace entries in known_findings.json under a lock. usage: kf_add.py '<json list of entries>'"""
import fcntl, json, sys
new = json.loads(sys.argv[1])
with open('/tmp/verif-kf.lock', 'w') as lk:
    fcntl.flock(lk, fcntl.LOCK_EX)
    p = '/verif/known_findings.json'
    d = json.load(open(p))
    for e in new:
        d['findings'] = [x for x in d['findings'] if not (x['property'] == e['property'] and x['monitor'] == e['monitor'] and x.get('match') == e.get('match'))]
        d['findings'].append(e)
    json.dump(d, open(p, 'w'), indent=1)
    open(p, 'a').write('\n')
